(** Properties/C08.v — Attribute selection, merging across attributes, and forwarding.
    Statements only; for ANY element-level receiver declaration [b] (attribute names, forward
    filter, attrs member, ordinary fields of any types) and any user callables. *)
From DarlingModel Require Import Run.NameProofs Run.Recv Run.Outer Run.OuterProofs.
Local Open Scope list_scope.

Section C08.
  Variable pf : bool -> string -> option N.
  Variable reparse : grammar -> string -> option string.
  Variable reparse_arr : string -> option expr.
  Variable reparse_preds : string -> option (list string).
  Variable sugg : bool.
  Variable sim : string -> string -> N.
  Variable interp_with : fnid -> nested -> res value.
  Variable interp_fn : fnid -> value -> res value.
  Variable interp_attrs : fnid -> list attribute -> res value.
  Notation extract := (extract pf reparse reparse_arr reparse_preds sugg sim interp_with interp_fn interp_attrs).
  Notation attr_step := (attr_step pf reparse reparse_arr reparse_preds sugg sim interp_with interp_fn).

  (** Several selected attributes on one element are a single list: two attribute lists with the
      same concatenation of selected items (any way of splitting them, bare and empty attributes
      interspersed, unrelated attributes anywhere) and the same forwarded attributes give the
      identical parser state - hence the identical value or identical errors - and the identical
      `attrs` member. *)
  Theorem C08_partition_invariant :
    forall b attrs attrs',
      Forall (mergeable b) attrs -> Forall (mergeable b) attrs' ->
      flat_map (sel_items b) attrs = flat_map (sel_items b) attrs' ->
      filter (forwarded b) attrs = filter (forwarded b) attrs' ->
      extract b attrs = extract b attrs'.
  Proof. exact (extract_partition_invariant pf reparse reparse_arr reparse_preds sugg sim interp_with interp_fn interp_attrs). Qed.

  (** Every other attribute, whatever its token content, has no effect. *)
  Theorem C08_unrelated_attribute_inert :
    forall b acc a, selected b a = false -> forwarded b a = false -> attr_step b acc a = acc.
  Proof. exact (unrelated_attribute_inert pf reparse reparse_arr reparse_preds sugg sim interp_with interp_fn). Qed.

  (** The `attrs` member holds exactly the attributes that are not consumed and that
      forward_attrs selects, unmodified and in source order. *)
  Theorem C08_forward_exact :
    forall b attrs st v,
      Forall (mergeable b) attrs -> ob_attrs b = Some None ->
      extract b attrs = Ok (st, v) -> v = Some (VList (map attr_toks (filter (forwarded b) attrs))).
  Proof. exact (forwarded_exact pf reparse reparse_arr reparse_preds sugg sim interp_with interp_fn interp_attrs). Qed.
End C08.

(** Hence the RESULT of every element-level receiver is the same for any two partitions of the
    same selected items over the element's attributes (the element being otherwise unchanged). *)
Theorem C08_receivers_partition_invariant :
  forall pf reparse reparse_arr reparse_preds sugg sim interp_with interp_fn interp_attrs interp_data,
    (forall b attrs attrs', same_selection b attrs attrs' ->
       from_attributes pf reparse reparse_arr reparse_preds sugg sim interp_with interp_fn interp_attrs b attrs
       = from_attributes pf reparse reparse_arr reparse_preds sugg sim interp_with interp_fn interp_attrs b attrs')
    /\ (forall b pass i attrs attrs' ident vis ty, same_selection b attrs attrs' ->
          from_field pf reparse reparse_arr reparse_preds sugg sim interp_with interp_fn interp_attrs (FcRecv b pass) (mkFE i attrs ident vis ty)
          = from_field pf reparse reparse_arr reparse_preds sugg sim interp_with interp_fn interp_attrs (FcRecv b pass) (mkFE i attrs' ident vis ty))
    /\ (forall b pass fm sup i attrs attrs' ident discr style fields, same_selection b attrs attrs' ->
          from_variant pf reparse reparse_arr reparse_preds sugg sim interp_with interp_fn interp_attrs (VcRecv b pass fm sup) (mkVE i attrs ident discr style fields)
          = from_variant pf reparse reparse_arr reparse_preds sugg sim interp_with interp_fn interp_attrs (VcRecv b pass fm sup) (mkVE i attrs' ident discr style fields))
    /\ (forall r i attrs attrs' ident vis g body, same_selection (dr_b r) attrs attrs' ->
          from_derive_input pf reparse reparse_arr reparse_preds sugg sim interp_with interp_fn interp_attrs interp_data r (mkDIn i attrs ident vis g body)
          = from_derive_input pf reparse reparse_arr reparse_preds sugg sim interp_with interp_fn interp_attrs interp_data r (mkDIn i attrs' ident vis g body)).
Proof.
  intros. repeat split.
  - apply from_attributes_partition_invariant.
  - apply from_field_partition_invariant.
  - apply from_variant_partition_invariant.
  - apply from_derive_input_partition_invariant.
Qed.

(** What "forwarded" means: not consumed, a place to keep it and a filter that can select
    something, and selected by the filter (all, when forward_attrs is given bare). *)
Theorem C08_forwarded_meaning :
  forall b a, forwarded b a = (negb (selected b a) && will_fwd b && fwd_selects b a)%bool.
Proof. reflexivity. Qed.

(** The name an attribute is selected by is its path as written, except that a raw identifier is the
    name it stands for (`#[r#final(..)]` is selected by a declared `final`, which can only be declared
    as `r#final`), and a global path keeps its leading colons (`#[::a]` is selected by a declared
    `::a` and by no name declared without them). *)
Theorem C08_attribute_names :
  (forall i j f s, attr_name (mkAttr i (mkPath j false [(("r#" ++ s)%string, ""%string)]) f) = s)
  /\ (forall a, p_leading (at_path a) = true -> String.prefix "::" (attr_name a) = true)
  /\ (forall b a, p_leading (at_path a) = true ->
        Forall (fun n => String.prefix "::" n = false) (ob_names b) -> selected b a = false).
Proof.
  split; [reflexivity|]. split.
  - intros a H. unfold attr_name. now apply NameProofs.path_to_string_global.
  - intros b a H F. unfold selected. induction F as [|n r Hn _ IH]; [reflexivity|]. cbn [existsb].
    destruct (str_eqb (attr_name a) n) eqn:E; [|exact IH].
    unfold str_eqb in E. apply String.eqb_eq in E. rewrite <- E in Hn.
    unfold attr_name in Hn. rewrite (NameProofs.path_to_string_global _ H) in Hn. discriminate.
Qed.

Print Assumptions C08_partition_invariant.
Print Assumptions C08_attribute_names.
Print Assumptions C08_unrelated_attribute_inert.
Print Assumptions C08_forward_exact.
Print Assumptions C08_forwarded_meaning.
Print Assumptions C08_receivers_partition_invariant.
