(** Properties/C05.v — Accumulator: Ok iff nothing was recorded; nothing recorded is ever lost.
    Statements only. *)
From DarlingModel Require Import Err.ErrTree Err.Accum Err.AccumProofs.
Local Open Scope list_scope.

(** Refinement: for every finite history over the twelve operations, the trace the
    accumulator produces is the trace of the abstract specification "a list of recorded errors
    that only grows and is emptied by the consuming operations", and the live accumulator holds
    exactly the recorded errors, in recording order. *)
Theorem C05_refines_growing_list :
  forall ops : list acc_op,
    snd (run_ops ops) = spec_trace [] ops /\ live (fst (run_ops ops)) = Some (recorded ops).
Proof. exact run_ops_refines. Qed.
Print Assumptions C05_refines_growing_list.

(** Finishing after any history: success (with the supplied value) iff nothing was recorded,
    otherwise an error bundling exactly the recorded errors in order. *)
Theorem C05_finish_ok_iff_nothing_recorded :
  forall (ops : list acc_op) (v : N),
    snd (run_ops (ops ++ [OpFinishWith v])) =
      spec_trace [] ops ++
      [match recorded ops with
       | [] => AFinished (Some v)
       | _ => AFailed (bundle (recorded ops))
       end].
Proof. exact (fun ops v => next_outcome ops (OpFinishWith v)). Qed.
Print Assumptions C05_finish_ok_iff_nothing_recorded.

(** The bundle is [Error::multiple] of the recorded list (one error: that error). *)
Theorem C05_bundle_is_multiple :
  forall l : list err, l <> [] -> multiple l = POk (bundle l).
Proof. exact multiple_bundle. Qed.
Print Assumptions C05_bundle_is_multiple.

(** Between two consuming operations the recorded list only grows: nothing is dropped or
    reordered. *)
Theorem C05_nothing_recorded_is_lost :
  forall (rec : list err) (ops : list acc_op),
    forallb (fun op => negb (consuming op)) ops = true ->
    exists more, fold_left recorded_step ops rec = rec ++ more.
Proof. exact recorded_grows. Qed.
Print Assumptions C05_nothing_recorded_is_lost.

(** [handle] returns the value exactly when given Ok. *)
Theorem C05_handle_returns_value_iff_ok :
  forall (ops : list acc_op),
    (forall v, snd (run_ops (ops ++ [OpHandleOk v])) = spec_trace [] ops ++ [AValue (Some v)])
    /\ (forall e, snd (run_ops (ops ++ [OpHandleErr e])) = spec_trace [] ops ++ [AValue None])
    /\ (forall v, snd (run_ops (ops ++ [OpHandleInOk v])) = spec_trace [] ops ++ [AValue (Some v)])
    /\ (forall e, snd (run_ops (ops ++ [OpHandleInErr e])) = spec_trace [] ops ++ [AValue None]).
Proof.
  exact (fun ops => conj (fun v => next_outcome ops (OpHandleOk v))
                   (conj (fun e => next_outcome ops (OpHandleErr e))
                   (conj (fun v => next_outcome ops (OpHandleInOk v))
                         (fun e => next_outcome ops (OpHandleInErr e))))).
Qed.
Print Assumptions C05_handle_returns_value_iff_ok.

(** [checkpoint] fails with everything recorded so far, or hands back a fresh armed accumulator. *)
Theorem C05_checkpoint :
  forall (ops : list acc_op),
    snd (run_ops (ops ++ [OpCheckpoint])) =
      spec_trace [] ops ++
      [match recorded ops with [] => AFresh | _ => AFailed (bundle (recorded ops)) end]
    /\ (recorded ops = [] -> live (fst (run_ops (ops ++ [OpCheckpoint]))) = Some []).
Proof.
  exact (fun ops => conj (next_outcome ops OpCheckpoint)
    (fun _ => eq_trans (proj2 (run_ops_refines (ops ++ [OpCheckpoint])))
                       (f_equal Some (eq_trans (fold_left_app recorded_step ops [OpCheckpoint] []) eq_refl)))).
Qed.
Print Assumptions C05_checkpoint.

(** The drop bomb: an unfinished accumulator panics when dropped - even when empty, stating
    how many errors were lost when not - except while the thread is already unwinding. *)
Theorem C05_drop_bomb :
  forall (ops : list acc_op),
    snd (run_ops (ops ++ [OpDrop])) =
      spec_trace [] ops ++
      [APanicked (match recorded ops with
                  | [] => "darling::error::Accumulator dropped without being finished"
                  | _ => "darling::error::Accumulator dropped without being finished. "
                           ++ N_to_string (N.of_nat (List.length (recorded ops)))
                           ++ " errors were lost."
                  end)%string]
    /\ snd (run_ops (ops ++ [OpDropUnwinding])) = spec_trace [] ops ++ [AQuiet].
Proof.
  exact (fun ops => conj (next_outcome ops OpDrop) (next_outcome ops OpDropUnwinding)).
Qed.
Print Assumptions C05_drop_bomb.

(** Nothing but an explicit drop outside unwinding ever panics; in particular no history
    reaches "Accumulator accessed after defuse" or [multiple] of an empty list. *)
Theorem C05_only_drop_panics :
  forall (ops : list acc_op) (m : string),
    In (APanicked m) (snd (run_ops ops)) -> In OpDrop ops.
Proof.
  exact (fun ops m H => spec_trace_panics [] ops m
                          (eq_ind _ (fun t => In (APanicked m) t) H _ (proj1 (run_ops_refines ops)))).
Qed.
Print Assumptions C05_only_drop_panics.
