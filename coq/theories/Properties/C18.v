(** Properties/C18.v — Shape validation accepts exactly the declared shapes.  Statements only. *)
From DarlingModel Require Import Shape.Shape Shape.ShapeProofs.

(** For every declaration (every subset of the eleven words, as the record they set) and every
    body - any number of variants - the emitted validator accepts exactly what the documented
    table accepts. *)
Theorem C18_table :
  forall (d : di_shape_set) (b : body), validate_body d b = Ok tt <-> documented_table d b = true.
Proof. exact validate_body_table. Qed.
Print Assumptions C18_table.

(** Words are additive. *)
Theorem C18_words_additive :
  forall (w : word) (d : di_shape_set) (b : body),
    documented_table d b = true -> documented_table (di_set w d) b = true.
Proof. exact words_additive. Qed.
Print Assumptions C18_words_additive.

(** A tuple word also admits newtypes but not the reverse. *)
Theorem C18_tuple_admits_newtype_not_converse :
  ss_contains (ss_new [Tuple]) Newtype = true /\ ss_contains (ss_new [Newtype]) Tuple = false.
Proof. exact tuple_admits_newtype. Qed.
Print Assumptions C18_tuple_admits_newtype_not_converse.

(** A struct is rejected when only enum words are given and vice versa. *)
Theorem C18_kinds_do_not_mix :
  (forall d vs, di_any d = false -> some_word (di_enum d) = false -> documented_table d (BEnum vs) = false)
  /\ (forall d s, di_any d = false -> some_word (di_struct d) = false -> documented_table d (BStruct s) = false).
Proof. exact (conj struct_words_reject_enums enum_words_reject_structs). Qed.
Print Assumptions C18_kinds_do_not_mix.

(** One error per non-conforming variant. *)
Theorem C18_one_error_per_bad_variant :
  forall d vs e, di_any d = false -> some_word (di_enum d) = true ->
    validate_body d (BEnum vs) = Err e -> len e = bad_variants (ds_to_set (di_enum d)) vs.
Proof. exact one_error_per_bad_variant. Qed.
Print Assumptions C18_one_error_per_bad_variant.

(** A union satisfies no struct or enum word: an error, never a crash; and no body makes the
    validator panic. *)
Theorem C18_union_is_error_never_crash :
  (forall d, di_any d = false -> exists e, validate_body d BUnion = Err e)
  /\ (forall d b, is_panic (validate_body d b) = false).
Proof. exact (conj union_is_error validate_body_total). Qed.
Print Assumptions C18_union_is_error_never_crash.

(** The stand-alone shape-set API gives the same verdicts: the emitted code is [ShapeSet::check]
    on the set the declaration denotes. *)
Theorem C18_runtime_api_agrees_with_derived :
  forall (d : data_shape) (s : shape),
    ss_contains (ds_to_set d) s = in_set d s
    /\ (ss_check (ds_to_set d) s = Ok tt <-> in_set d s = true).
Proof.
  exact (fun d s => conj (ds_to_set_contains d s)
                         (iff_trans (ss_check_ok (ds_to_set d) s)
                                    (eq_ind_r (fun b => b = true <-> in_set d s = true) (iff_refl _) (ds_to_set_contains d s)))).
Qed.
Print Assumptions C18_runtime_api_agrees_with_derived.
