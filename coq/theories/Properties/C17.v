(** Properties/C17.v — Did-you-mean suggestions are sound, best-match and scoped to the level.
    Statements only; every theorem holds for ANY similarity function [sim] (strsim's
    Jaro-Winkler enters the correspondence check as data, never a proof). *)
From DarlingModel Require Import Err.ErrTree Err.SuggestProofs Spec.C17 Run.Recv Run.RecvProofs Run.EnumProofs.
Local Open Scope string_scope.
Local Open Scope list_scope.

(** The suggestion computed by the library IS the specification's argmax: the first candidate
    of maximal similarity among those strictly above the threshold. *)
Theorem C17_suggestion_is_best_match :
  forall sim u cands, did_you_mean true sim u cands = best_scored sim u cands.
Proof. exact did_you_mean_is_best. Qed.

(** What the argmax means: a suggested name is a candidate, above the threshold, at least as
    similar as every candidate (that is above the threshold), and the first such in list order;
    there is no suggestion exactly when no candidate exceeds the threshold. *)
Theorem C17_best_match_meaning :
  forall sim u cands,
    (forall s, best_match sim u cands = Some s ->
       In s cands /\ (threshold < sim u s)%N
       /\ (forall c, In c cands -> (sim u c <= sim u s)%N \/ (sim u c <= threshold)%N)
       /\ exists pre post, cands = pre ++ s :: post
            /\ forall c, In c pre -> (sim u c < sim u s)%N \/ (sim u c <= threshold)%N)
    /\ (best_match sim u cands = None <-> forall c, In c cands -> (sim u c <= threshold)%N).
Proof.
  intros sim u cands. split.
  - intros s H. destruct (best_match_some sim u cands s H) as [A [B C]].
    repeat split; auto. exact (best_match_first sim u cands s H).
  - exact (best_match_none sim u cands).
Qed.

(** With the suggestions feature disabled there is never a suggestion, and sibling alternates
    change nothing. *)
Theorem C17_feature_off_no_suggestion :
  forall sim, (forall u cands, did_you_mean false sim u cands = None)
              /\ (forall n cur alts, add_alts false sim n cur alts = cur).
Proof. exact (fun sim => conj (did_you_mean_off sim) (add_alts_off sim)). Qed.

(** A better earlier suggestion is never replaced by a worse one (nor removed). *)
Theorem C17_add_alts_only_improves :
  forall sim sugg name c0 s0 alts,
    (forall c s, add_alts sugg sim name (Some (c0, s0)) alts = Some (c, s) ->
       (c0 <= c)%N /\ ((c, s) = (c0, s0) \/ (c0 < c)%N))
    /\ add_alts sugg sim name (Some (c0, s0)) alts <> None.
Proof.
  intros sim sugg name c0 s0 alts. split.
  - intros c s. exact (add_alts_only_improves sim sugg name c0 s0 alts c s).
  - apply add_alts_keeps_some. discriminate.
Qed.

(** Names of an enclosing receiver reach only errors at their origin: a located error - and
    everything inside it, to any depth - is returned unchanged; in general the leaves keep
    their order, paths and spans, and only unknown-field leaves whose complete path is empty
    may gain or improve a suggestion. *)
Theorem C17_parent_names_only_at_origin :
  forall sim sugg alts,
    (forall e, locs_of e <> [] -> add_sibling_alts sugg sim alts e = e)
    /\ (forall e inh, leaves [] inh (add_sibling_alts sugg sim alts e)
                      = map (upd_leaf sim sugg alts) (leaves [] inh e)).
Proof.
  exact (fun sim sugg alts => conj (add_sibling_alts_located sim sugg alts)
                                   (add_sibling_alts_leaves sim sugg alts)).
Qed.

(** At a struct level (any field list): the error reported for a name the level does not
    address carries the best match among exactly the addressable names ... *)
Theorem C17_struct_candidates_are_the_addressable_names :
  forall sugg sim fields n item,
    unknown_error sugg sim fields n item
    = with_span (i_span (ninfo item))
        (new_err (KUnknownField n (did_you_mean sugg sim n (names fields)))).
Proof. exact unknown_error_eq. Qed.

(** ... so a suggestion is an addressable name of this very level (never a skipped or flatten
    member), is not the rejected name, and would select a field if written instead. *)
Theorem C17_struct_suggestion_sound :
  forall sugg sim fields n c s,
    find_arm (finfos fields) 0 n = None ->
    did_you_mean sugg sim n (names fields) = Some (c, s) ->
    In s (names fields) /\ s <> n /\ find_arm (finfos fields) 0 s <> None
    /\ sugg = true /\ best_match sim n (names fields) = Some s /\ c = sim n s.
Proof. exact suggestion_sound. Qed.

(** The struct loop reports an unknown field only for a name no arm addresses, with exactly
    that suggestion (field-value errors are located, so they are never mistaken for it). *)
Theorem C17_only_on_unknown_field :
  forall sugg sim interp_with interp_fn fields convs auk item e n d l s,
    item_error sugg sim interp_with interp_fn fields convs auk item e ->
    e = Leaf (KUnknownField n d) l s -> l = [] ->
    (forall i f loc x, extract interp_with interp_fn convs i f item loc = Err x -> locs_of x <> []) ->
    n = RecvProofs.item_name item /\ find_arm (finfos fields) 0 n = None
    /\ d = did_you_mean sugg sim n (names fields).
Proof. exact item_error_unknown. Qed.

(** Enums: the candidates for an unknown variant name are the non-skipped variants' names
    (see C09_list_selects_by_name), so a suggestion is a selectable variant, not the rejected
    name. *)
Theorem C17_enum_suggestion_sound :
  forall sim (vs : list (vinfo * list (finfo * ty))) n c s,
    select vs n = None ->
    did_you_mean true sim n (variant_names vs) = Some (c, s) ->
    In s (variant_names vs) /\ s <> n /\ select vs s <> None.
Proof.
  intros sim vs n c s Hn Hd. rewrite did_you_mean_is_best in Hd. unfold best_scored in Hd.
  destruct (best_match sim n (variant_names vs)) as [s'|] eqn:B; [|discriminate].
  cbn in Hd. injection Hd as <- <-.
  pose proof (best_match_some sim n (variant_names vs) s' B) as [Hin _].
  split; [exact Hin|]. split.
  - intros ->. apply select_none in Hn. apply Hn. exact Hin.
  - intros E. apply select_none in E. apply E. exact Hin.
Qed.

Print Assumptions C17_suggestion_is_best_match.
Print Assumptions C17_best_match_meaning.
Print Assumptions C17_feature_off_no_suggestion.
Print Assumptions C17_add_alts_only_improves.
Print Assumptions C17_parent_names_only_at_origin.
Print Assumptions C17_struct_candidates_are_the_addressable_names.
Print Assumptions C17_struct_suggestion_sound.
Print Assumptions C17_only_on_unknown_field.
Print Assumptions C17_enum_suggestion_sound.
