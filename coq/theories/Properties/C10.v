(** Properties/C10.v — Derive-time validation (first theorems; the order-freedom theorem follows). *)
From DarlingModel Require Import Options.Resolve.

(** A derive never answers with "both" or "nothing": the outcome type has exactly two cases and
    a rejection carries at least one error. *)
Theorem C10_rejection_is_never_empty :
  forall reparse reparse_preds (t : dtrait) (d : rdecl) errs,
    resolve reparse reparse_preds t d = Rejected errs -> errs <> nil.
Proof.
  intros rp rpp t d errs. unfold resolve.
  destruct (rd_body d) eqn:B.
  - destruct (parse_attributes _ _ _) as [c es]. destruct es as [|e es'].
    + destruct (resolve_body rp rpp t c d) as [[b|] es2] eqn:RB.
      * destruct es2 as [|e2 es2']; [|intros [= <-]; discriminate].
        destruct t; try discriminate.
        destruct (_ && _)%bool; [intros [= <-]; discriminate|discriminate].
      * intros [= <-]. unfold resolve_body in RB. rewrite B in RB.
        destruct (fold_left _ fields _). discriminate.
    + intros [= <-]. discriminate.
  - destruct (parse_attributes _ _ _) as [c es]. destruct es as [|e es'].
    + destruct (resolve_body rp rpp t c d) as [[b|] es2] eqn:RB.
      * destruct es2 as [|e2 es2']; [|intros [= <-]; discriminate].
        destruct t; try discriminate.
        destruct (_ && _)%bool; [intros [= <-]; discriminate|discriminate].
      * intros [= <-]. unfold resolve_body in RB. rewrite B in RB.
        destruct (is_outer t).
        -- injection RB as <-. intros E. apply app_eq_nil in E as [_ E]. discriminate.
        -- destruct (fold_left _ variants _). discriminate.
    + intros [= <-]. discriminate.
  - intros [= <-]. discriminate.
Qed.
Print Assumptions C10_rejection_is_never_empty.
