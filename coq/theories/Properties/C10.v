(** Properties/C10.v — Derive-time validation accepts exactly the well-formed declarations.
    Statements only. *)
From DarlingModel Require Import Options.Resolve Options.FieldOrderProofs Options.VariantOrderProofs Options.ContainerOrderProofs Spec.C10 Options.SpecBridge Options.ComposeProofs.
From Coq Require Import Permutation.
Local Open Scope string_scope.
Local Open Scope list_scope.

(** A derive never answers with "both" or "nothing": the outcome type has exactly two cases and
    a rejection carries at least one error. *)
Theorem C10_rejection_is_never_empty :
  forall reparse reparse_preds (t : dtrait) (d : rdecl) errs,
    resolve reparse reparse_preds t d = Rejected errs -> errs <> nil.
Proof.
  intros rp rpp t d errs. unfold resolve.
  destruct (rd_body d) eqn:B.
  - destruct (parse_attributes _ _ _) as [c es]. destruct es as [|e es'].
    + destruct (resolve_body rp rpp t c d) as [[b|] es2] eqn:RB.
      * destruct es2 as [|e2 es2']; [|intros [= <-]; discriminate].
        destruct t; try discriminate.
        destruct (_ && _)%bool; [intros [= <-]; discriminate|discriminate].
      * intros [= <-]. unfold resolve_body in RB. rewrite B in RB.
        destruct (fold_left _ fields _). discriminate.
    + intros [= <-]. discriminate.
  - destruct (parse_attributes _ _ _) as [c es]. destruct es as [|e es'].
    + destruct (resolve_body rp rpp t c d) as [[b|] es2] eqn:RB.
      * destruct es2 as [|e2 es2']; [|intros [= <-]; discriminate].
        destruct t; try discriminate.
        destruct (_ && _)%bool; [intros [= <-]; discriminate|discriminate].
      * intros [= <-]. unfold resolve_body in RB. rewrite B in RB.
        destruct (is_outer t).
        -- injection RB as <-. intros E. apply app_eq_nil in E as [_ E]. discriminate.
        -- destruct (fold_left _ variants _). discriminate.
    + intros [= <-]. discriminate.
  - intros [= <-]. discriminate.
Qed.
(** The recorded finding (known_findings.txt, key from_ident-then-default), as a theorem about
    the model of the CONTAINER chain: acceptance there does depend on the order in which two
    options are written although neither is repeated and the pair is not a documented conflict -
    `from_ident` installs a stand-in container default, so a `default` written after it looks
    like a repetition.  (For fields the order-freedom theorem above holds without exception.) *)
Definition word_item (s : string) : nested :=
  NPath (mkInfo (0, 0, 0, 0)%N s) (mkPath (mkInfo (0, 0, 0, 0)%N s) false [(s, ""%string)]).
Definition darling_attr (items : list nested) : nested :=
  NList (mkInfo (0, 0, 0, 0)%N ""%string) (mkPath (mkInfo (0, 0, 0, 0)%N ""%string) false [("darling"%string, ""%string)])
        (mkInfo (0, 0, 0, 0)%N ""%string) items.

Theorem C10_container_order_dependence_refuted :
  forall reparse reparse_preds,
    snd (parse_attributes (container_step reparse reparse_preds DFromField) copts0
           [darling_attr [word_item "from_ident"; word_item "default"]]) <> nil
    /\ snd (parse_attributes (container_step reparse reparse_preds DFromField) copts0
              [darling_attr [word_item "default"; word_item "from_ident"]]) = nil.
Proof. intros rp rpp. split; [vm_compute; discriminate|vm_compute; reflexivity]. Qed.

Print Assumptions C10_rejection_is_never_empty.

(** The field-option chain ([InputField::parse_nested], whose conflict checks depend on what was
    read before: `flatten` after `rename` is caught in the flatten arm, `rename` after `flatten` in
    the rename arm, a repeat in the arm of the repeated option, ...) reports no error EXACTLY when
    an ORDER-FREE predicate holds of the multiset of option kinds written on the field, over all
    its attributes: only known options in their accepted form, none repeated (map / and_then share
    one slot), flatten together with none of rename / with / skip = true / multiple = true.
    For every option list of any length, in any order, split over attributes in any way. *)
Theorem C10_field_accept_iff_well_formed :
  forall reparse reparse_preds rf attrs,
    Forall list_attr attrs ->
    (snd (parse_attributes (field_step reparse reparse_preds) (field0 rf) attrs) = nil
     <-> wf_kinds (map (view reparse reparse_preds) (flat_items attrs)) = true).
Proof. exact field_attrs_accept_iff_wf. Qed.

(** The predicate does not look at order ... *)
Theorem C10_well_formedness_is_order_free :
  forall l l', Permutation l l' -> wf_kinds l = wf_kinds l'.
Proof. exact wf_kinds_order_free. Qed.

(** ... hence acceptance of a field is invariant under reordering its options and re-splitting
    them over attributes. *)
Theorem C10_field_acceptance_order_and_split_free :
  forall reparse reparse_preds rf attrs attrs',
    Forall list_attr attrs -> Forall list_attr attrs' ->
    Permutation (flat_items attrs) (flat_items attrs') ->
    (snd (parse_attributes (field_step reparse reparse_preds) (field0 rf) attrs) = nil
     <-> snd (parse_attributes (field_step reparse reparse_preds) (field0 rf) attrs') = nil).
Proof. exact field_attrs_split_and_order_free. Qed.

(** The chain refines an abstract step on option kinds (state: which options were seen, with the
    values of skip / multiple): the bridge between the transliterated code and the finite sweep. *)
Theorem C10_field_step_refines_abstract_step :
  forall reparse reparse_preds f mi,
    post_ok f ->
    let '(f', o) := field_step reparse reparse_preds f mi in
    let '(s', e) := astep (abs f) (view reparse reparse_preds mi) in
    abs f' = s' /\ (is_some o = e) /\ post_ok f'.
Proof. exact field_step_refines. Qed.

(** The VARIANT option chain ([InputVariant::parse_nested]), for every list of `#[darling(..)]`
    attributes that are words or lists of meta items: it reports no error exactly when - over ALL
    the attributes, in any order - each of `rename`, `skip`, `word` occurs at most once and in its
    accepted form, `word` only on a unit variant, and nothing else occurs. *)
Theorem C10_variant_accept_iff_well_formed :
  forall reparse reparse_preds ident style attrs,
    Forall list_attr attrs ->
    (snd (parse_attributes (variant_step reparse reparse_preds) (mkV ident None None None style []) attrs) = []
     <-> vwf (is_unit style) (map (vview reparse reparse_preds) (flat_items attrs))).
Proof. exact variant_attrs_accept_iff_wf. Qed.

Theorem C10_variant_acceptance_order_and_split_free :
  forall reparse reparse_preds ident style attrs attrs',
    Forall list_attr attrs -> Forall list_attr attrs' ->
    Permutation (flat_items attrs) (flat_items attrs') ->
    (snd (parse_attributes (variant_step reparse reparse_preds) (mkV ident None None None style []) attrs) = []
     <-> snd (parse_attributes (variant_step reparse reparse_preds) (mkV ident None None None style []) attrs') = []).
Proof. exact variant_attrs_split_and_order_free. Qed.

(** Non-vacuity: `word` twice on a unit variant is rejected, `rename` + `skip` + `word` accepted,
    `word` on a tuple variant rejected. *)
Example C10_variant_nonvacuous :
  let w := word_item "word" in
  let attr items := darling_attr items in
  snd (parse_attributes (variant_step (fun _ _ => None) (fun _ => None)) (mkV "V" None None None StUnit []) [attr [w; w]]) <> []
  /\ snd (parse_attributes (variant_step (fun _ _ => None) (fun _ => None)) (mkV "V" None None None StUnit []) [attr [w]; attr [word_item "skip"]]) = []
  /\ snd (parse_attributes (variant_step (fun _ _ => None) (fun _ => None)) (mkV "V" None None None StTuple []) [attr [w]]) <> [].
Proof. cbv zeta. repeat split; vm_compute; try discriminate; reflexivity. Qed.

(** The CONTAINER option chain of every derive, for every list of `#[darling(..)]` attributes that
    are words or lists of meta items: it reports no error exactly when - over ALL the attributes -
    no option is unknown or malformed, each of `map` / `and_then` (together), `allow_unknown_fields`,
    `from_word`, `from_none` occurs at most once (the other container options may be repeated: the
    last one wins), and no `default` is preceded by a `default` or by a `from_ident`.  The last
    clause is the only place in darling's derive-time validation where order matters; it is the
    recorded finding (`from_ident` installs a stand-in default), stated here exactly. *)
Theorem C10_container_accepts_exactly :
  forall reparse reparse_preds t attrs,
    Forall list_attr attrs ->
    let l := map (cview reparse reparse_preds t) (flat_items attrs) in
    (snd (parse_attributes (container_step reparse reparse_preds t) copts0 attrs) = [] <->
     ccnt CoErr l = 0%nat /\ (ccnt CoPost l <= 1)%nat /\ (ccnt CoAuk l <= 1)%nat /\ (ccnt CoFromWord l <= 1)%nat /\ (ccnt CoFromNone l <= 1)%nat
     /\ forall pre suf, l = pre ++ CoDefault :: suf -> ccnt CoDefault pre = 0%nat /\ ccnt CoFromIdent pre = 0%nat).
Proof. exact container_attrs_accept_exactly. Qed.

(** Where `from_ident` is not written (FromMeta and FromAttributes never have it) acceptance of
    the container options is order- and split-free. *)
Theorem C10_container_order_and_split_free_without_from_ident :
  forall reparse reparse_preds t attrs attrs',
    Forall list_attr attrs -> Forall list_attr attrs' -> Permutation (flat_items attrs) (flat_items attrs') ->
    ccnt CoFromIdent (map (cview reparse reparse_preds t) (flat_items attrs)) = 0%nat ->
    (snd (parse_attributes (container_step reparse reparse_preds t) copts0 attrs) = []
     <-> snd (parse_attributes (container_step reparse reparse_preds t) copts0 attrs') = []).
Proof. exact container_attrs_order_and_split_free_without_from_ident. Qed.

Print Assumptions C10_rejection_is_never_empty.
Print Assumptions C10_field_accept_iff_well_formed.
Print Assumptions C10_well_formedness_is_order_free.
Print Assumptions C10_field_acceptance_order_and_split_free.
Print Assumptions C10_field_step_refines_abstract_step.
Print Assumptions C10_container_order_dependence_refuted.
Print Assumptions C10_variant_accept_iff_well_formed.
Print Assumptions C10_variant_acceptance_order_and_split_free.
Print Assumptions C10_container_accepts_exactly.
Print Assumptions C10_container_order_and_split_free_without_from_ident.

(** THE READING IS THE CHAIN, for one field.  Spec/C10.v's [field_wf] - written from the property text
    as counts of option NAMES plus "the value is in its accepted form", with no state and no order,
    and evaluated on the code's verdict in every run - holds exactly when the model's order-sensitive
    chain reports no error: for every field, whatever its attributes look like (name-value
    attributes, malformed lists and literal items included), in any order and any split. *)
Theorem C10_field_reading_is_the_chain :
  forall reparse reparse_preds rf,
    Forall attr_shaped (rf_attrs rf) ->
    (snd (parse_attributes (field_step reparse reparse_preds) (field0 rf) (rf_attrs rf)) = []
     <-> field_wf reparse reparse_preds (rf_attrs rf) = true).
Proof. exact field_chain_is_the_reading. Qed.

(** The same for a variant's own options (`rename`, `skip`, `word`). *)
Theorem C10_variant_reading_is_the_chain :
  forall reparse reparse_preds ident style attrs,
    Forall attr_shaped attrs ->
    (snd (parse_attributes (variant_step reparse reparse_preds) (mkV ident None None None style []) attrs) = []
     <-> exists items, all_items attrs = Some items
                       /\ variant_items_wf reparse reparse_preds (is_unit style) items = true).
Proof. exact variant_chain_is_the_reading. Qed.

(** The same for the CONTAINER options of every derive: the chain reports no error exactly when the
    reading [container_wf] holds and no `default` is written after a `from_ident` - the reading is
    order-free, the second clause is the recorded finding, stated on the declaration's own items;
    where `from_ident` is not written the reading alone decides. *)
Theorem C10_container_reading_is_the_chain :
  forall reparse reparse_preds t attrs,
    Forall attr_shaped attrs ->
    (snd (parse_attributes (container_step reparse reparse_preds t) copts0 attrs) = []
     <-> container_wf reparse reparse_preds t attrs = true
         /\ exists items, all_items attrs = Some items /\ default_after_from_ident false items = false).
Proof. exact container_chain_is_the_reading. Qed.

Theorem C10_container_reading_is_the_chain_without_from_ident :
  forall reparse reparse_preds t attrs,
    Forall attr_shaped attrs ->
    (forall items, all_items attrs = Some items -> count "from_ident" items = 0%nat) ->
    (snd (parse_attributes (container_step reparse reparse_preds t) copts0 attrs) = []
     <-> container_wf reparse reparse_preds t attrs = true).
Proof. exact container_chain_is_the_reading_without_from_ident. Qed.

(** THE COMPOSITION.  For each of the six derives and EVERY declaration - struct, enum or union, any
    options on the container, the fields, the variants and the fields of the variants, written in
    any order and split over attributes in any way, malformed attributes included - the model of
    the derive emits an implementation exactly when the declaration is well-formed in the sense of
    Spec/C10.v (the order-free reading of the property that every run evaluates on the code's own
    verdict) and no `default` is written after a `from_ident` on the container (the recorded
    finding: the one place where order matters).  [decl_shaped]: attributes are never bare
    literals and the fields of a tuple struct have no identifier - what syn delivers; executable
    as [decl_shapedb], evaluated on every declaration the check runs. *)
Theorem C10_derive_accepts_exactly_the_well_formed :
  forall reparse reparse_preds t d,
    decl_shaped d ->
    ((exists c b, resolve reparse reparse_preds t d = Accepted c b)
     <-> well_formed_10 reparse reparse_preds t d = true /\ no_default_after_from_ident (rd_attrs d)).
Proof. exact resolve_is_the_reading. Qed.

Theorem C10_executable_shape_test_is_sound : forall d, decl_shapedb d = true -> decl_shaped d.
Proof. exact decl_shapedb_sound. Qed.

(** Non-vacuity: a generic struct with a flatten field and a renamed field is shaped, well-formed and accepted. *)
Example C10_composition_nonvacuous :
  let it s := word_item s in
  let d := mkRDecl (0,0,0,0)%N [darling_attr [it "allow_unknown_fields"]]
                   (RStruct StNamed [mkRField (Some "a") (0,0,0,0)%N None [darling_attr [it "flatten"]] Usage.NOpaque;
                                     mkRField (Some "b") (0,0,0,0)%N None [darling_attr [it "skip"]; darling_attr [it "default"]] Usage.NOpaque]
                            (0,0,0,0)%N) [] in
  decl_shapedb d = true
  /\ well_formed_10 (fun _ _ => None) (fun _ => None) DFromMeta d = true
  /\ (exists c b, resolve (fun _ _ => None) (fun _ => None) DFromMeta d = Accepted c b).
Proof. cbv zeta. split; [reflexivity|]. split; [vm_compute; reflexivity|]. vm_compute. eauto. Qed.

Print Assumptions C10_field_reading_is_the_chain.
Print Assumptions C10_derive_accepts_exactly_the_well_formed.
Print Assumptions C10_executable_shape_test_is_sound.
Print Assumptions C10_container_reading_is_the_chain.
Print Assumptions C10_container_reading_is_the_chain_without_from_ident.
Print Assumptions C10_variant_reading_is_the_chain.
