(** Properties/C20.v — the hygiene clause of C20 (the part that is logic; that emitted code
    type-checks is observed by compiling generated crates, never proved).  Statements only. *)
From DarlingModel Require Import Options.Emit.
Local Open Scope string_scope.
Local Open Scope list_scope.

(** Every local the emitted functions declare next to the receiver's field locals starts with a
    double underscore ... *)
Theorem C20_generated_locals_are_double_underscore :
  forall g, In g generated_locals -> String.prefix "__" g = true.
Proof.
  assert (H : forallb (String.prefix "__") generated_locals = true) by (vm_compute; reflexivity).
  intros g. rewrite forallb_forall in H. apply H.
Qed.

(** ... hence cannot clash with any ordinary field, variant or generic name, raw identifiers and
    names equal to darling's option words included. *)
Theorem C20_binders_disjoint_from_user_names :
  forall users, forallb ordinary users = true ->
    forall g, In g generated_locals -> ~ In g users.
Proof.
  intros users H g Hg Hu. rewrite forallb_forall in H. specialize (H g Hu).
  unfold ordinary in H. rewrite (C20_generated_locals_are_double_underscore g Hg) in H. discriminate.
Qed.

(** The locals of one emitted function are pairwise distinct when the receiver's own names are. *)
Theorem C20_locals_pairwise_distinct :
  forall users, forallb ordinary users = true -> NoDup users -> NoDup (generated_locals ++ users).
Proof.
  intros users H N.
  assert (D : NoDup generated_locals).
  { unfold generated_locals. repeat (constructor; [cbn; intuition discriminate|]). constructor. }
  assert (X : forall g, In g generated_locals -> ~ In g users)
    by (intros g Hg; now apply C20_binders_disjoint_from_user_names).
  revert D X. generalize generated_locals as gl. induction gl as [|g r IH]; intros D X; cbn; [exact N|].
  inversion D as [|? ? Hn Dr]; subst. constructor.
  - intros I. apply in_app_or in I as [I|I]; [now apply Hn|]. now apply (X g (or_introl eq_refl)).
  - apply IH; [exact Dr|]. intros x Hx. apply X. now right.
Qed.

Print Assumptions C20_generated_locals_are_double_underscore.
Print Assumptions C20_binders_disjoint_from_user_names.
Print Assumptions C20_locals_pairwise_distinct.
