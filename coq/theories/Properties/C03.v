(** Properties/C03.v — Errors carry the most specific source span and never lose it.
    Statements only. *)
From DarlingModel Require Import Err.ErrTree Err.ErrProofs Conv.Routing Conv.RoutingProofs Run.Recv Run.RecvProofs.
Local Open Scope list_scope.

(** A span once attached is never replaced: [with_span] fills an empty span only. *)
Theorem C03_with_span_first_writer_wins :
  forall s e, span_of (with_span s e) = match span_of e with Some x => Some x | None => Some s end.
Proof. exact span_of_with_span. Qed.

(** Attaching a location does not touch the span (nor does [with_span] touch locations). *)
Theorem C03_location_and_span_independent :
  (forall l e, span_of (at_ l e) = span_of e) /\ (forall s e, locs_of (with_span s e) = locs_of e).
Proof. exact (conj span_of_at locs_of_with_span). Qed.

(** Bundling and flattening: the flattened members are exactly the leaves, each with its own
    span if it has one, else the span of its nearest spanned enclosing bundle ([leaves] is the
    plain tree traversal that says so). *)
Theorem C03_flatten_preserves_or_inherits :
  (forall e, flat_map leaf_view (into_vec e) = leaves [] None e)
  /\ (forall e f, flatten e = POk f -> leaves [] None f = leaves [] None e)
  /\ (forall k l s0 pre inh, leaves pre inh (Leaf k l (Some s0)) = [(k, pre ++ l, Some s0)]).
Proof. exact (conj into_vec_leaves (conj flatten_leaves leaves_keep_own_span)). Qed.

(** Conversion to compiler diagnostics: one diagnostic per leaf, at the leaf's (own or
    inherited) span; only a leaf with no span at all falls back to the call site, and then its
    message includes the location path. *)
Theorem C03_diagnostics_use_leaf_span :
  (forall e, proper e = true -> to_syn e = POk (map leaf_diag (leaves [] None e)))
  /\ (forall k l x, leaf_diag (k, l, Some x) = (Some x, kind_msg k))
  /\ (forall k l, leaf_diag (k, l, None) = (None, (kind_msg k ++ locs_suffix l)%string)).
Proof. exact (conj to_syn_spec (conj (fun _ _ _ => eq_refl) (fun _ _ => eq_refl))). Qed.

(** An error whose root carries a span gives every flattened leaf a span. *)
Theorem C03_spanned_root_spans_every_leaf :
  forall e s, span_of e = Some s ->
    Forall (fun v : kind * list string * option span => snd v <> None) (leaves [] None e).
Proof. exact leaves_root_spanned. Qed.

(** The default trait methods attach the span of the item / value / expression on the way out,
    for EVERY implementer (any subset of overridden hooks, any behaviour of those hooks) ... *)
Theorem C03_defaults_attach_item_span :
  forall F : fm,
    (forall m x, is_meta m = true -> default_from_meta F m = Err x -> span_of x <> None)
    /\ (forall n x, default_from_nested F n = Err x -> span_of x <> None)
    /\ (forall e x, default_from_expr F e = Err x -> span_of x <> None).
Proof.
  exact (fun F => conj (default_from_meta_err_spanned' F)
                       (conj (default_from_nested_err_spanned F) (default_from_expr_err_spanned F))).
Qed.

(** ... and never replace a span the hook's error already carried. *)
Theorem C03_defaults_keep_inner_span :
  forall (A : Type) i (e : err), span_of e <> None -> ws (A:=A) i (Err e) = Err e.
Proof. exact (fun A i e => ws_keeps_spanned (A:=A) i e). Qed.

(** Derived struct parsers (any field list, any field-type implementers, any user callables):
    every error the item loop records is spanned - a field-value error with the span of the
    item, unless the field's own conversion (or the user's function) had already attached a
    more specific one, which is then kept; literal items, repeated and unknown names with the
    span of the item itself. *)
Theorem C03_struct_loop_errors_spanned :
  forall sugg sim interp_with interp_fn fields convs auk items st st',
    core_loop sugg sim interp_with interp_fn fields convs auk st items = Ok st' ->
    exists es, ps_errs st' = ps_errs st ++ es
               /\ errs_from sugg sim interp_with interp_fn fields convs auk items es
               /\ Forall (fun e => span_of e <> None) es.
Proof.
  intros sugg sim interp_with interp_fn fields convs auk items st st' H.
  destruct (core_loop_errs sugg sim interp_with interp_fn fields convs auk items st st' H) as [es [E F]].
  exists es. repeat split; auto.
  exact (errs_from_spanned sugg sim interp_with interp_fn fields convs auk items es F).
Qed.

Theorem C03_field_error_span_is_item_or_more_specific :
  forall interp_with interp_fn convs i f item loc e,
    extract interp_with interp_fn convs i f item loc = Err e ->
    span_of e = Some (i_span (ninfo item))
    \/ exists x, span_of e = span_of x /\ span_of x <> None
                 /\ apply_post interp_fn (fi_post f)
                      (match fi_with f with
                       | Some w => interp_with w item
                       | None => from_meta (conv_of convs i) item
                       end) = Err x.
Proof. exact extract_err_span. Qed.

Print Assumptions C03_with_span_first_writer_wins.
Print Assumptions C03_location_and_span_independent.
Print Assumptions C03_flatten_preserves_or_inherits.
Print Assumptions C03_diagnostics_use_leaf_span.
Print Assumptions C03_spanned_root_spans_every_leaf.
Print Assumptions C03_defaults_attach_item_span.
Print Assumptions C03_defaults_keep_inner_span.
Print Assumptions C03_struct_loop_errors_spanned.
Print Assumptions C03_field_error_span_is_item_or_more_specific.
