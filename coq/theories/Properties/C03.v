(** Properties/C03.v — Errors carry the most specific source span and never lose it.
    Statements only. *)
From DarlingModel Require Import Err.ErrTree Err.ErrProofs Conv.Routing Conv.RoutingProofs Run.Recv Run.RecvProofs Run.InsideProofs Run.LeafTotal Run.LeafInside Exec.RecvCase Exec.RecvInside.
Local Open Scope list_scope.

(** A span once attached is never replaced: [with_span] fills an empty span only. *)
Theorem C03_with_span_first_writer_wins :
  forall s e, span_of (with_span s e) = match span_of e with Some x => Some x | None => Some s end.
Proof. exact span_of_with_span. Qed.

(** Attaching a location does not touch the span (nor does [with_span] touch locations). *)
Theorem C03_location_and_span_independent :
  (forall l e, span_of (at_ l e) = span_of e) /\ (forall s e, locs_of (with_span s e) = locs_of e).
Proof. exact (conj span_of_at locs_of_with_span). Qed.

(** Bundling and flattening: the flattened members are exactly the leaves, each with its own
    span if it has one, else the span of its nearest spanned enclosing bundle ([leaves] is the
    plain tree traversal that says so). *)
Theorem C03_flatten_preserves_or_inherits :
  (forall e, flat_map leaf_view (into_vec e) = leaves [] None e)
  /\ (forall e f, flatten e = POk f -> leaves [] None f = leaves [] None e)
  /\ (forall k l s0 pre inh, leaves pre inh (Leaf k l (Some s0)) = [(k, pre ++ l, Some s0)]).
Proof. exact (conj into_vec_leaves (conj flatten_leaves leaves_keep_own_span)). Qed.

(** Conversion to compiler diagnostics: one diagnostic per leaf, at the leaf's (own or
    inherited) span; only a leaf with no span at all falls back to the call site, and then its
    message includes the location path. *)
Theorem C03_diagnostics_use_leaf_span :
  (forall e, proper e = true -> to_syn e = POk (map leaf_diag (leaves [] None e)))
  /\ (forall k l x, leaf_diag (k, l, Some x) = (Some x, kind_msg k))
  /\ (forall k l, leaf_diag (k, l, None) = (None, (kind_msg k ++ locs_suffix l)%string)).
Proof. exact (conj to_syn_spec (conj (fun _ _ _ => eq_refl) (fun _ _ => eq_refl))). Qed.

(** An error whose root carries a span gives every flattened leaf a span. *)
Theorem C03_spanned_root_spans_every_leaf :
  forall e s, span_of e = Some s ->
    Forall (fun v : kind * list string * option span => snd v <> None) (leaves [] None e).
Proof. exact leaves_root_spanned. Qed.

(** The default trait methods attach the span of the item / value / expression on the way out,
    for EVERY implementer (any subset of overridden hooks, any behaviour of those hooks) ... *)
Theorem C03_defaults_attach_item_span :
  forall F : fm,
    (forall m x, is_meta m = true -> default_from_meta F m = Err x -> span_of x <> None)
    /\ (forall n x, default_from_nested F n = Err x -> span_of x <> None)
    /\ (forall e x, default_from_expr F e = Err x -> span_of x <> None).
Proof.
  exact (fun F => conj (default_from_meta_err_spanned' F)
                       (conj (default_from_nested_err_spanned F) (default_from_expr_err_spanned F))).
Qed.

(** ... and never replace a span the hook's error already carried. *)
Theorem C03_defaults_keep_inner_span :
  forall (A : Type) i (e : err), span_of e <> None -> ws (A:=A) i (Err e) = Err e.
Proof. exact (fun A i e => ws_keeps_spanned (A:=A) i e). Qed.

(** Derived struct parsers (any field list, any field-type implementers, any user callables):
    every error the item loop records is spanned - a field-value error with the span of the
    item, unless the field's own conversion (or the user's function) had already attached a
    more specific one, which is then kept; literal items, repeated and unknown names with the
    span of the item itself. *)
Theorem C03_struct_loop_errors_spanned :
  forall sugg sim interp_with interp_fn fields convs auk items st st',
    core_loop sugg sim interp_with interp_fn fields convs auk st items = Ok st' ->
    exists es, ps_errs st' = ps_errs st ++ es
               /\ errs_from sugg sim interp_with interp_fn fields convs auk items es
               /\ Forall (fun e => span_of e <> None) es.
Proof.
  intros sugg sim interp_with interp_fn fields convs auk items st st' H.
  destruct (core_loop_errs sugg sim interp_with interp_fn fields convs auk items st st' H) as [es [E F]].
  exists es. repeat split; auto.
  exact (errs_from_spanned sugg sim interp_with interp_fn fields convs auk items es F).
Qed.

Theorem C03_field_error_span_is_item_or_more_specific :
  forall interp_with interp_fn convs i f item loc e,
    extract interp_with interp_fn convs i f item loc = Err e ->
    span_of e = Some (i_span (ninfo item))
    \/ exists x, span_of e = span_of x /\ span_of x <> None
                 /\ apply_post interp_fn (fi_post f)
                      (match fi_with f with
                       | Some w => interp_with w item
                       | None => from_meta (conv_of convs i) item
                       end) = Err x.
Proof. exact extract_err_span. Qed.

(** The spans the leaves of an error end up with when it is flattened ([lspans]: own, else that of
    the nearest spanned enclosing bundle) are the spans of the plain tree traversal [leaves]. *)
Theorem C03_effective_spans_are_the_leaf_spans :
  forall e pre inh, map snd (leaves pre inh e) = lspans inh e.
Proof. exact lspans_leaves. Qed.

(** Derived receivers of ANY shape and depth (structs, newtypes, unit structs, enums, Option / Box
    / darling::Result around them, nested arbitrarily): an error returned for a meta item [m] has
    EVERY leaf spanned, inside [m]; an error returned for an item list has every spanned leaf
    inside one of the items.  Inputs: any positionally well-formed token tree ([wfp]).  Outside
    the derived code: library leaf targets satisfying the same contract ([ok_leaf]; discharged
    below for the plain ones), [with = ..] callables blaming only the item they were given, other
    user functions (which never see the input) returning span-less errors. *)
Theorem C03_every_leaf_inside_the_offending_item :
  forall pf reparse reparse_arr reparse_preds sugg sim interp_with interp_fn (ok_leaf : Targets.target -> Prop),
    (forall tg, ok_leaf tg -> inside_fm (leaf_fm pf reparse reparse_arr reparse_preds tg)) ->
    (forall w it e, is_meta it = true -> wfp it -> interp_with w it = Err e -> okw (in_span (i_span (ninfo it))) None e) ->
    (forall g v e, interp_fn g v = Err e -> unsp e) ->
    forall t, leaves_ok ok_leaf t ->
      (forall m e, is_meta m = true -> wfp m ->
         from_meta (impl_of pf reparse reparse_arr reparse_preds sugg sim interp_with interp_fn t) m = Err e ->
         Forall (fun o => match o with Some s => span_inside s (i_span (ninfo m)) = true | None => False end) (lspans None e))
      /\ (forall l e, Forall wfp l ->
         from_list (impl_of pf reparse reparse_arr reparse_preds sugg sim interp_with interp_fn t) l = Err e ->
         Forall (fun o => match o with
                          | Some s => exists it, In it l /\ span_inside s (i_span (ninfo it)) = true
                          | None => True
                          end) (lspans None e)).
Proof. exact impl_inside. Qed.

(** The leaf contract holds for the library's plain targets (unit, bool, AtomicBool, char, String,
    PathBuf, the 24 integer types, floats for any float oracle, Flag, and Option / smart pointers /
    darling::Result / keyed maps over them) ... *)
Theorem C03_plain_targets_point_inside :
  forall pf reparse reparse_arr reparse_preds t, plain t = true -> inside_fm (fm_of pf reparse reparse_arr reparse_preds t).
Proof. exact plain_inside. Qed.

(** ... so for receivers built from them the theorem has no assumption about the library. *)
Theorem C03_receivers_over_plain_targets :
  forall pf reparse reparse_arr reparse_preds sugg sim interp_with interp_fn,
    (forall w it e, is_meta it = true -> wfp it -> interp_with w it = Err e -> okw (in_span (i_span (ninfo it))) None e) ->
    (forall g v e, interp_fn g v = Err e -> unsp e) ->
    forall t, leaves_ok (fun tg => plain tg = true) t ->
      inside_fm (impl_of pf reparse reparse_arr reparse_preds sugg sim interp_with interp_fn t).
Proof.
  intros pf reparse reparse_arr reparse_preds sugg sim interp_with interp_fn Hw Hf t L.
  apply (impl_inside pf reparse reparse_arr reparse_preds sugg sim interp_with interp_fn (fun tg => plain tg = true)); auto.
  intros tg P. now apply plain_inside.
Qed.

(** The instance the correspondence check evaluates (Exec/RecvCase.v: the fixed library of user
    callables of the corpus, any oracle tables, any case): no assumption is left except the
    receiver mentioning plain targets only and the input being positionally well-formed, which the
    check evaluates on every input ([wfpb], sound by [wfpb_sound]). *)
Theorem C03_checked_instance :
  forall c : caseRecv, leaves_ok (fun tg => plain tg = true) (rc_ty c) -> inside_fm (recv_fm c).
Proof. exact checked_instance_inside. Qed.

Theorem C03_executable_well_formedness_is_sound : forall n, wfpb n = true -> wfp n.
Proof. exact wfpb_sound. Qed.

(** The premises are satisfiable and the conclusion is not vacuous: a two-level receiver over
    plain targets, a positionally well-formed input with a misspelt nested name. *)
Local Open Scope string_scope.
Local Open Scope list_scope.
Example C03_inside_nonvacuous :
  let mk s := mkInfo s "" in
  let pth s n := mkPath (mk s) false [(n, "")] in
  let inner := TStructR (mkCI "Inner" None None false None None)
                 [(mkFI "size" "size" None None None false false false, TLeaf (TInt (mkIty false 8 false)))] in
  let outer := TStructR (mkCI "Outer" None None false None None)
                 [(mkFI "inner" "inner" None None None false false false, inner)] in
  let input := NList (mk (1, 0, 1, 20)%N) (pth (1, 0, 1, 1)%N "x") (mk (1, 1, 1, 20)%N)
                 [NList (mk (1, 2, 1, 19)%N) (pth (1, 2, 1, 7)%N "inner") (mk (1, 7, 1, 19)%N)
                    [NNameValue (mk (1, 8, 1, 18)%N) (pth (1, 8, 1, 12)%N "sise")
                       (ELit (mk (1, 15, 1, 18)%N) (LInt "300" ""))]] in
  leaves_ok (fun tg => plain tg = true) outer /\ wfp input
  /\ exists e, from_meta (impl_of (fun _ _ => None) (fun _ _ => None) (fun _ => None) (fun _ => None) false (fun _ _ => 0%N)
                                  (fun _ _ => Ok VUnit) (fun _ _ => Ok VUnit) outer) input = Err e
               /\ lspans None e = [Some (1, 8, 1, 18)%N; Some (1, 2, 1, 19)%N].
Proof. cbv zeta. split; [cbn; auto|]. split; [vm_compute; tauto|]. eexists. split; vm_compute; reflexivity. Qed.

Print Assumptions C03_with_span_first_writer_wins.
Print Assumptions C03_location_and_span_independent.
Print Assumptions C03_flatten_preserves_or_inherits.
Print Assumptions C03_diagnostics_use_leaf_span.
Print Assumptions C03_spanned_root_spans_every_leaf.
Print Assumptions C03_defaults_attach_item_span.
Print Assumptions C03_defaults_keep_inner_span.
Print Assumptions C03_struct_loop_errors_spanned.
Print Assumptions C03_field_error_span_is_item_or_more_specific.
Print Assumptions C03_effective_spans_are_the_leaf_spans.
Print Assumptions C03_every_leaf_inside_the_offending_item.
Print Assumptions C03_plain_targets_point_inside.
Print Assumptions C03_receivers_over_plain_targets.
Print Assumptions C03_checked_instance.
Print Assumptions C03_executable_well_formedness_is_sound.
