(** Properties/C11.v — Scalar conversions are exact: in range means that value, otherwise an error.
    Statements only. *)
From DarlingModel Require Import Conv.Scalars Conv.ScalarProofs.
Local Open Scope Z_scope.

(** std's integer parser, as modelled digit by digit with checked multiply-add (what both the
    quoted and the unquoted path end in), accepts exactly the optionally signed decimal
    numerals whose mathematical value lies in the target's range (non-zero for NonZero types)
    and returns that value - for every width, signedness and digit-string length. *)
Theorem C11_std_parse_int_exact :
  forall (t : ity) (s : string) (v : Z), wf_ity t ->
    (std_parse_int t s = inr v <->
     denote (it_signed t) s = Some v /\ it_lo t <= v <= it_hi t /\ (it_nonzero t = true -> v <> 0)).
Proof. exact std_parse_int_spec. Qed.
Print Assumptions C11_std_parse_int_exact.

(** An unquoted integer literal is accepted exactly when its sign and decimal value (what syn
    lexed from any radix / underscores; the suffix is ignored) are in range, and yields that value. *)
Theorem C11_unquoted :
  forall (t : ity) (i : info) (digits suffix : string) (v : Z), wf_ity t ->
    (int_from_value t i (LInt digits suffix) = Ok (VInt v) <->
     denote (it_signed t) digits = Some v /\ in_range t v).
Proof. exact int_unquoted_spec. Qed.
Print Assumptions C11_unquoted.

(** A quoted one is the string as it stands. *)
Theorem C11_quoted_is_std_parse :
  forall (t : ity) (i : info) (s : string) (v : Z), wf_ity t ->
    (int_from_value t i (LStr s) = Ok (VInt v) <->
     denote (it_signed t) s = Some v /\ in_range t v).
Proof. exact int_quoted_spec. Qed.
Print Assumptions C11_quoted_is_std_parse.

(** Plain decimal spellings mean the same quoted or unquoted. *)
Theorem C11_plain_decimal_quoted_eq_unquoted :
  forall (t : ity) (i i' : info) (s suffix : string) (v : value),
    int_from_value t i (LStr s) = Ok v <-> int_from_value t i' (LInt s suffix) = Ok v.
Proof. exact int_quoted_eq_unquoted. Qed.
Print Assumptions C11_plain_decimal_quoted_eq_unquoted.

(** Whatever the meta item, an integer target never produces a value outside its range. *)
Theorem C11_never_wraps :
  forall (t : ity) (m : nested) (v : value), wf_ity t ->
    from_meta (int_fm t) m = Ok v -> exists z, v = VInt z /\ in_range t z.
Proof. exact int_never_wraps. Qed.
Print Assumptions C11_never_wraps.

(** Every rejection is a spanned error, never a panic. *)
Theorem C11_rejection_is_spanned_error :
  forall (t : ity) (m : nested), is_meta m = true ->
    is_panic (from_meta (int_fm t) m) = false
    /\ (forall e, from_meta (int_fm t) m = Err e -> span_of e <> None).
Proof. exact int_rejections. Qed.
Print Assumptions C11_rejection_is_spanned_error.

(** bool: the bare word is true; a boolean literal is itself; a string is "true" / "false". *)
Theorem C11_bool_table :
  (forall i p, from_meta bool_fm (NPath i p) = Ok (VBool true))
  /\ (forall i p j b, from_meta bool_fm (NNameValue i p (ELit j (LBool b))) = Ok (VBool b))
  /\ (forall i p j, from_meta bool_fm (NNameValue i p (ELit j (LStr "true"))) = Ok (VBool true))
  /\ (forall i p j, from_meta bool_fm (NNameValue i p (ELit j (LStr "false"))) = Ok (VBool false))
  /\ (forall i p j s, s <> "true"%string -> s <> "false"%string ->
        from_meta bool_fm (NNameValue i p (ELit j (LStr s)))
        = Err (Leaf (KUnknownValue s) [] (Some (i_span j)))).
Proof.
  repeat split; try reflexivity.
  intros i p j s H1 H2.
  unfold from_meta, default_from_meta, from_expr, default_from_expr, from_value, default_from_value,
    from_string; cbn.
  unfold bool_from_string, str_eqb.
  rewrite (proj2 (String.eqb_neq s "true") H1), (proj2 (String.eqb_neq s "false") H2). reflexivity.
Qed.
Print Assumptions C11_bool_table.

(** char: a char literal is itself; a string is accepted exactly when it has one character. *)
Theorem C11_char_table :
  (forall i p j c, from_meta char_fm (NNameValue i p (ELit j (LChar c))) = Ok (VChar c))
  /\ (forall i p j s, from_meta char_fm (NNameValue i p (ELit j (LStr s)))
        = match utf8_chars s with
          | [c] => Ok (VChar c)
          | _ => Err (Leaf (KUnexpectedType "string") [] (Some (i_span j)))
          end)
  /\ (forall i p, from_meta char_fm (NPath i p)
        = Err (Leaf (KUnexpectedFormat "word") [] (Some (i_span i)))).
Proof.
  repeat split; try reflexivity.
  intros i p j s.
  unfold from_meta, default_from_meta, from_expr, default_from_expr, from_value, default_from_value,
    from_string; cbn.
  unfold char_from_string. destruct (utf8_chars s) as [|c [|c2 r]]; reflexivity.
Qed.
Print Assumptions C11_char_table.

(** String / PathBuf: exactly the string literal's contents; every other form is a spanned error. *)
Theorem C11_string_table :
  (forall i p j s, from_meta string_fm (NNameValue i p (ELit j (LStr s))) = Ok (VStr s))
  /\ (forall i p j b, from_meta string_fm (NNameValue i p (ELit j (LBool b)))
        = Err (Leaf (KUnexpectedType "bool") [] (Some (i_span j))))
  /\ (forall i p j d sfx, from_meta string_fm (NNameValue i p (ELit j (LInt d sfx)))
        = Err (Leaf (KUnexpectedType "int") [] (Some (i_span j))))
  /\ (forall i p, from_meta string_fm (NPath i p)
        = Err (Leaf (KUnexpectedFormat "word") [] (Some (i_span i)))).
Proof. repeat split; reflexivity. Qed.
Print Assumptions C11_string_table.

(** Floats, relative to the oracle [pf] for [str::parse::<f32|f64>]: both spellings are exactly
    what std parses from the digits. *)
Theorem C11_float_is_std_parse :
  forall (pf : bool -> string -> option N) is64 i,
    (forall s, float_from_value pf is64 i (LStr s)
       = match pf is64 s with
         | Some b => Ok (VFloat b)
         | None => Err (Leaf (KUnknownValue s) [] (Some (i_span i)))
         end)
    /\ (forall d sfx b, pf is64 d = Some b -> float_from_value pf is64 i (LFloat d sfx) = Ok (VFloat b))
    (* ... also when the literal is written without a fraction (`x = 2`; repaired by 1f92447) *)
    /\ (forall d sfx b, pf is64 d = Some b -> float_from_value pf is64 i (LInt d sfx) = Ok (VFloat b)).
Proof.
  intros pf is64 i. repeat split.
  - intros s. unfold float_from_value, float_from_string. destruct (pf is64 s); reflexivity.
  - intros d sfx b H. unfold float_from_value. rewrite H. reflexivity.
  - intros d sfx b H. unfold float_from_value. rewrite H. reflexivity.
Qed.
Print Assumptions C11_float_is_std_parse.
