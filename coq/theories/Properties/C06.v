(** Properties/C06.v — The derive macros are total: they diagnose, they never crash.
    The model of the six derives ([resolve], Options/Resolve.v) contains every panic site of
    core/src/options and core/src/codegen that an input can reach (after the repairs recorded in
    known_findings.txt there is none left: the model's outcome type has no panic case, and the
    correspondence check compares it with the real derives on every run).  Statements only. *)
From DarlingModel Require Import Base.Prelude Options.Resolve Exec.DeriveObs.
Local Open Scope string_scope.

(** For every declaration and each of the six derives the outcome is either an accepted
    receiver (one implementation block) or a rejection with at least one error - never both,
    never nothing. *)
Theorem C06_outcome_exclusive :
  forall reparse reparse_preds (t : dtrait) (d : rdecl),
    (exists c b, resolve reparse reparse_preds t d = Accepted c b)
    \/ (exists errs, resolve reparse reparse_preds t d = Rejected errs /\ errs <> nil).
Proof.
  intros rp rpp t d. destruct (resolve rp rpp t d) as [c b|errs] eqn:E.
  - left. eauto.
  - right. exists errs. split; [reflexivity|].
    (* the rejection lemma is proved once, in Properties/C10.v's companion; restated here *)
    revert E. unfold resolve. destruct (rd_body d) eqn:B.
    + destruct (parse_attributes _ _ _) as [c es]. destruct es as [|e es'].
      * destruct (resolve_body rp rpp t c d) as [[b|] es2] eqn:RB.
        -- destruct es2 as [|e2 es2']; [|intros [= <-]; discriminate].
           destruct t; try discriminate. destruct (_ && _)%bool; [intros [= <-]; discriminate|discriminate].
        -- intros [= <-]. unfold resolve_body in RB. rewrite B in RB. destruct (fold_left _ fields _). discriminate.
      * intros [= <-]. discriminate.
    + destruct (parse_attributes _ _ _) as [c es]. destruct es as [|e es'].
      * destruct (resolve_body rp rpp t c d) as [[b|] es2] eqn:RB.
        -- destruct es2 as [|e2 es2']; [|intros [= <-]; discriminate].
           destruct t; try discriminate. destruct (_ && _)%bool; [intros [= <-]; discriminate|discriminate].
        -- intros [= <-]. unfold resolve_body in RB. rewrite B in RB. destruct (is_outer t).
           ++ injection RB as <-. intros E. apply app_eq_nil in E as [_ E]. discriminate.
           ++ destruct (fold_left _ variants _). discriminate.
      * intros [= <-]. discriminate.
    + intros [= <-]. discriminate.
Qed.
Print Assumptions C06_outcome_exclusive.

(** A union, an enum for an element-level trait, a tuple body with no or several fields: each is
    a rejection (diagnostics), for every derive - none of them reaches code generation. *)
Theorem C06_unrepresentable_bodies_are_rejections :
  forall reparse reparse_preds (t : dtrait) (d : rdecl),
    (rd_body d = RUnion -> exists errs, resolve reparse reparse_preds t d = Rejected errs)
    /\ (forall vs, rd_body d = REnum vs -> is_outer t = true ->
          exists errs, resolve reparse reparse_preds t d = Rejected errs).
Proof.
  intros rp rpp t d. split.
  - intros B. unfold resolve. rewrite B. eauto.
  - intros vs B O. unfold resolve. rewrite B.
    destruct (parse_attributes _ _ _) as [c es]. destruct es as [|e es']; [|eauto].
    unfold resolve_body. rewrite B, O. eauto.
Qed.
Print Assumptions C06_unrepresentable_bodies_are_rejections.

(** The observation-level statement of the property rejects every panic. *)
Theorem C06_predicate_rejects_panics :
  forall t m o, d_panic o = Some m -> holds06 t o = false.
Proof. intros t m o H. unfold holds06. now rewrite H. Qed.
Print Assumptions C06_predicate_rejects_panics.
