(** Properties/C06.v — The derive macros are total (placeholder until Options/Resolve.v lands). *)
From DarlingModel Require Import Base.Prelude Exec.DeriveObs.
Local Open Scope string_scope.

(** The observation-level statement of the property is well-formed: an outcome with one impl of
    the requested trait and no diagnostics satisfies it, a panic never does. *)
Theorem C06_predicate_sanity :
  forall t, holds06 t {| d_panic := None; d_impls := [want_trait t]; d_other_items := 0; d_diags := [];
                         d_unparsed := false |} = true
  /\ forall m o, d_panic o = Some m -> holds06 t o = false.
Proof.
  intros t. split.
  - unfold holds06. cbn. unfold str_eqb. now rewrite String.eqb_refl.
  - intros m o H. unfold holds06. now rewrite H.
Qed.
Print Assumptions C06_predicate_sanity.
