(** Properties/C14.v — Keyed collections: all distinct keys kept, every repeat and bad entry reported.
    For any key kind (String / Ident / Path) and ANY value implementer [V].  Hash and ordered maps
    share the one macro body modelled by [map_from_list].  Statements only. *)
From DarlingModel Require Import Conv.Routing Conv.Scalars Conv.Maps Conv.MapProofs Err.Accum.
Local Open Scope list_scope.

(** The single-pass builder equals a per-item comprehension: it fails with the bundle of
    [spec_errs] (in item order) if there are any, else succeeds with [spec_map]. *)
Theorem C14_builder_is_comprehension :
  forall (K : keykind) (V : fm) (items : list nested),
    values_total V items ->
    map_from_list K V items =
      match spec_errs K V [] items with
      | [] => Ok (VMap (spec_map K V [] items))
      | errs => Err (bundle errs)
      end.
Proof. exact map_from_list_spec. Qed.
Print Assumptions C14_builder_is_comprehension.

(** It succeeds exactly when every item is a named item, every key converts, all keys are
    pairwise distinct after conversion, and every value converts. *)
Theorem C14_ok_iff :
  forall (K : keykind) (V : fm) (items : list nested),
    values_total V items ->
    (spec_errs K V [] items = [] <-> clean K V [] items = true).
Proof. exact (fun K V items => spec_errs_nil_iff K V items []). Qed.
Print Assumptions C14_ok_iff.

(** Then the map has exactly one entry per item, in item order, holding the value the element
    type produces for it; the keys are pairwise distinct. *)
Theorem C14_ok_content :
  forall (K : keykind) (V : fm) (items : list nested),
    clean K V [] items = true ->
    map Some (spec_map K V [] items) = map (entry_of K V) items
    /\ List.length (spec_map K V [] items) = List.length items
    /\ NoDup (map fst (spec_map K V [] items)).
Proof.
  exact (fun K V items C => conj (clean_content K V items [] C)
           (conj (clean_length K V items [] C) (proj1 (clean_keys_nodup K V items [] C)))).
Qed.
Print Assumptions C14_ok_content.

(** Otherwise: one leaf per literal item, per repeated occurrence of a key, per unconvertible
    key, plus the leaves of every unconvertible value. *)
Theorem C14_error_leaf_count :
  forall (K : keykind) (V : fm) (items : list nested),
    sumN (map len (spec_errs K V [] items)) =
      (count_literals K V items + count_repeats K V [] items + count_bad_keys K V items
       + count_value_leaves K V items)%N.
Proof. exact (fun K V items => spec_errs_count K V items []). Qed.
Print Assumptions C14_error_leaf_count.
