(** Properties/C19.v — Generic-parameter usage analysis is exact (the analysis half; the
    "drives exactly the needed bounds" half is stated in Properties/C19b over Options/Emit).
    Statements only. *)
From DarlingModel Require Import Usage.Usage Usage.UsageProofs.
Local Open Scope list_scope.

(** For every type of the mirrored grammar (every form, any depth) made of node kinds the
    analysis knows, every query set and both purposes: the analysis does not panic and returns
    exactly the members of the set that occur where they denote the parameter. *)
Theorem C19_exact :
  forall (declare : purpose) (set : list string) (n : node),
    known n = true ->
    upanics (uses_tp declare set n) = false
    /\ forall x, In x (hits_of (uses_tp declare set n)) <-> In x set /\ occurs_tp declare x n.
Proof. exact uses_tp_exact. Qed.
Print Assumptions C19_exact.

(** Never a name outside the queried set (type parameters: corollary; lifetimes: by induction). *)
Theorem C19_subset_of_query :
  forall (declare : purpose) (set : list string) (n : node),
    (known n = true -> forall x, In x (hits_of (uses_tp declare set n)) -> In x set)
    /\ (forall x, In x (hits_of (uses_lt declare set n)) -> In x set).
Proof.
  exact (fun d s n => conj (fun K x H => proj1 (proj1 (proj2 (uses_tp_exact d s n K) x) H))
                           (uses_lt_subset d s n)).
Qed.
Print Assumptions C19_subset_of_query.

(** The answer for a collection is the union of its members' answers. *)
Theorem C19_collection_is_union :
  forall (declare : purpose) (set : list string) (l : list node),
    forallb known l = true ->
    forall x, In x (hits_of (collect_tp declare set l))
              <-> In x set /\ exists e, In e l /\ occurs_tp declare x e.
Proof.
  exact (fun d s l K => proj2 (all_good d s l
           (proj2 (Forall_forall _ l) (fun e _ => uses_tp_exact d s e)) K)).
Qed.
Print Assumptions C19_collection_is_union.

(** A qualified self is searched only for declaration purposes. *)
Theorem C19_qself_only_for_declare :
  forall (set : list string) q leading segs,
    uses_tp false set (NPath (Some q) leading segs) = uses_tp false set (NPath None leading segs)
    /\ uses_lt false set (NPath (Some q) leading segs) = uses_lt false set (NPath None leading segs).
Proof. exact (fun _ _ _ _ => conj eq_refl eq_refl). Qed.
Print Assumptions C19_qself_only_for_declare.

(** A global path's first segment and every later segment never denote a parameter; macro
    bodies, const-expression arguments and inferred / never types are not searched. *)
Theorem C19_non_use_positions :
  forall (declare : purpose) (set : list string) (a x : string),
    uses_tp declare set (NPath None true ((x, NArgsNone) :: nil)) = UOk nil
    /\ uses_tp declare set (NPath None false ((a, NArgsNone) :: (x, NArgsNone) :: nil))
       = UOk (ident_hits set a)
    /\ uses_tp declare set NOpaque = UOk nil
    /\ uses_tp declare set NArgConst = UOk nil.
Proof.
  intros declare set a x. repeat split; cbn [uses_tp map snd uconcat fold_right uapp app];
    destruct declare; cbn [uapp]; rewrite ?app_nil_r; reflexivity.
Qed.
Print Assumptions C19_non_use_positions.
