(** Properties/C13.v — Syntax-typed values reproduce the user's tokens; quoted and bare forms agree.
    A converted syn value is its token string; [reparse g s] is the oracle "syn's grammar [g]
    applied to the contents [s] of a string literal".  Statements only. *)
From DarlingModel Require Import Conv.Routing Conv.Scalars Conv.SynValues Conv.RoutingProofs Conv.SynProofs.
Local Open Scope string_scope.

(** Expr: a bare (non-string) expression is returned token for token, through any nesting of
    invisible groups. *)
Theorem C13_expr_bare_is_identity :
  forall reparse (e : expr),
    (forall i s, strip_groups e <> ELit i (LStr s)) ->
    expr_from_expr reparse e = Ok (VToks (i_toks (einfo (strip_groups e)))).
Proof. exact expr_bare_is_identity. Qed.
Print Assumptions C13_expr_bare_is_identity.

(** ... and a string literal is its contents re-parsed by the same grammar. *)
Theorem C13_expr_quoted_is_reparse :
  forall reparse (e : expr) i s,
    strip_groups e = ELit i (LStr s) ->
    expr_from_expr reparse e =
      match reparse GExpr s with
      | Some t => Ok (VToks t)
      | None => Err (Leaf (KUnknownValue s) [] (Some (i_span i)))
      end.
Proof. exact expr_quoted_is_reparse. Qed.
Print Assumptions C13_expr_quoted_is_reparse.

Theorem C13_path_bare_is_identity :
  forall reparse (e : expr) i p,
    strip_groups e = EPath i p -> path_from_expr reparse e = Ok (VToks (i_toks (p_info p))).
Proof. exact path_bare_is_identity. Qed.
Print Assumptions C13_path_bare_is_identity.

Theorem C13_path_quoted_is_reparse :
  forall reparse (e : expr) i s,
    strip_groups e = ELit i (LStr s) ->
    path_from_expr reparse e =
      match reparse GPath s with
      | Some t => Ok (VToks t)
      | None => Err (Leaf (KUnknownValue s) [] (Some (i_span i)))
      end.
Proof. exact path_quoted_is_reparse. Qed.
Print Assumptions C13_path_quoted_is_reparse.

(** Where both a bare and a quoted spelling are accepted they produce equal values (hypothesis:
    syn's print / parse round trip for that path). *)
Theorem C13_bare_quoted_agree :
  forall reparse (e1 e2 : expr) i p j,
    strip_groups e1 = EPath i p ->
    strip_groups e2 = ELit j (LStr (i_toks (p_info p))) ->
    reparse GPath (i_toks (p_info p)) = Some (i_toks (p_info p)) ->
    path_from_expr reparse e1 = path_from_expr reparse e2.
Proof. exact path_bare_quoted_agree. Qed.
Print Assumptions C13_bare_quoted_agree.

(** Invisible groups are transparent for every expression-taking target, at any depth. *)
Theorem C13_groups_transparent :
  forall reparse (e : expr),
    expr_from_expr reparse e = expr_from_expr reparse (strip_groups e)
    /\ path_from_expr reparse e = path_from_expr reparse (strip_groups e)
    /\ ident_from_expr reparse e = ident_from_expr reparse (strip_groups e)
    /\ (forall g k, k <> "group" ->
          expr_type_from_expr reparse g k e = expr_type_from_expr reparse g k (strip_groups e)).
Proof.
  exact (fun r e => conj (expr_from_expr_strip r e) (conj (path_from_expr_strip r e)
           (conj (ident_from_expr_strip r e) (fun g k => expr_type_from_expr_strip r g k e)))).
Qed.
Print Assumptions C13_groups_transparent.

(** Every other expression form is rejected with the error spanned at the expression itself. *)
Theorem C13_path_rejections_spanned :
  forall reparse (e : expr),
    (forall i l, strip_groups e <> ELit i l) -> (forall i p, strip_groups e <> EPath i p) ->
    path_from_expr reparse e
    = Err (Leaf (KUnexpectedType (expr_type_name (strip_groups e))) []
                (Some (i_span (einfo (strip_groups e))))).
Proof. exact path_rejects_other. Qed.
Print Assumptions C13_path_rejections_spanned.

Theorem C13_string_parse_rejections_spanned :
  forall reparse g i l x, parse_lit_str reparse g i l = Err x -> span_of x <> None.
Proof. exact parse_lit_str_err_spanned. Qed.
Print Assumptions C13_string_parse_rejections_spanned.

(** Vectors of literals: element-wise, in order. *)
Theorem C13_vectors_elementwise_in_order :
  forall reparse_arr want i (es : list expr) (vs : list value),
    array_from_expr reparse_arr (veclit_of_array want) (EArray i es) = Ok (VList vs) <->
    Forall2 (fun e v => from_expr (lit_fm want) e = Ok v) es vs.
Proof. exact veclit_elementwise. Qed.
Print Assumptions C13_vectors_elementwise_in_order.

(** A literal-typed target keeps the user's literal token and accepts only its own kind. *)
Theorem C13_literal_keeps_token :
  forall want i l v,
    lit_from_value want i l = Ok v -> v = VToks (i_toks i) /\ (want = "" \/ lit_type_name l = want).
Proof. exact lit_keeps_token. Qed.
Print Assumptions C13_literal_keeps_token.

(** The two expression helpers differ only on a string literal (invisible groups are transparent). *)
Theorem C13_expr_helpers_differ_only_on_string_literal :
  forall reparse (m : nested),
    (forall i p e j s, m = NNameValue i p e -> strip_groups e <> ELit j (LStr s)) ->
    parse_str_literal reparse m = preserve_str_literal m.
Proof. exact helpers_differ_only_on_string_literal. Qed.
Print Assumptions C13_expr_helpers_differ_only_on_string_literal.
