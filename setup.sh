#!/bin/sh
# Build the framework from files on disk only (offline): the Coq development (full .vo build)
# and the harness crates against /repo's working tree.
set -e
cd "$(dirname "$0")"
export CARGO_NET_OFFLINE=true
( cd coq && coq_makefile -f _CoqProject -o Makefile >/dev/null 2>&1 && timeout 3000 make -j16 >/dev/null )
[ -f harness/Cargo.lock ] || cp /repo/Cargo.lock harness/Cargo.lock
( cd harness && cargo build --offline -q -p vh-rt --target-dir target )
echo "setup ok"
