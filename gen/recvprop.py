"""Shared driver of the receiver-level properties evaluated on the compiled corpus (C03, C09, C17 and the
receiver part of others): cases -> real derived parser -> Coq (model agreement + the property's predicate)."""
import json
import re
import vlib
import recvlib
import convlib

WORD = re.compile(r"(?:::)?[A-Za-z_][A-Za-z0-9_:]*")      # a leading `::` is part of the name


PAIR_CAP = 2000


def pair_table(src, names):
    """(word, name) pairs whose similarity the harness reports as the oracle of the suggestion model: the words that are
    not names (the misspellings) first; (pairs, truncated)"""
    names = sorted(set(names))
    plain = src.replace("r#", "")                                                                # `r#type` reads `type`
    # (`a ::b` is the path `a::b` to the parser: a dropped comma can glue two names into one)
    words = sorted(set(WORD.findall(plain)) | set(WORD.findall(re.sub(r"\s*::\s*", "::", plain))), key=lambda w: (w in names, w))
    return [(w, n) for w in words for n in names][:PAIR_CAP], len(words) * len(names) > PAIR_CAP


def with_groups(rng, cases, frac=0.2):
    """mark a fraction of the cases that contain a `name = value` item: the harness then wraps EVERY value, at every depth, in
    1-2 invisible groups (values that are macro_rules! fragments); 5 / 6 leave a leading `-` outside the group (`a = -$n`)"""
    for c in cases:
        if c.get("entry", "meta") == "meta" and " = " in c["src"] and rng.random() < frac:
            c["group_all"] = rng.choice([1, 2, 5, 5, 6])
    return cases


def shown(c):
    return "`%s`%s" % (c["src"], (" (every value in %d invisible group(s)%s)" % (c["group_all"] % 4, ", a leading `-` outside" if c["group_all"] >= 4 else ""))
                       if c.get("group_all") else "")


def with_pairs(c, extra_names=()):
    x = recvlib.BY_NAME[c["target"]]
    c["pairs"], c["pairs_truncated"] = pair_table(c["src"], set(recvlib.all_names(x)) | set(extra_names))
    return c


def all_with_pairs(cases):
    """cases with their similarity pairs; a case whose pair table would be cut is left out (never evaluated on a partial oracle)"""
    return [c for c in (with_pairs(c) for c in cases) if not c["pairs_truncated"]]


def recv_part(R, prop, raw, holds, nontrivial, describe=None, key_fn=None, tag="cases", model_body=None, failed=None):
    out = convlib.run_conv_property(
        R, prop, raw, "run_recv_counted %s %s %%s" % (holds, nontrivial),
        lambda c, r: recvlib.c_case_recv(recvlib.BY_NAME[c["target"]], c, r),
        describe=describe or (lambda c: "%s::%s on %s" % (c["target"], c["entry"], shown(c))),
        key_fn=key_fn or (lambda c, r: "recv"),
        model_body=model_body or "Eval vm_compute in (model_recv c).",
        failed_holds=failed or (holds + " (Exec/RecvCase.v)"), header=recvlib.HEADER_RECV, tag=tag)
    if out is None:
        return None
    out["nontrivial"] = vlib.LAST_COUNT
    return out


def samples(keep):
    return [keep[i] for i in (0, len(keep) // 3, len(keep) // 2, len(keep) - 1) if i < len(keep)]
