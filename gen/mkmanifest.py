#!/usr/bin/env python3
"""Regenerates /verif/MANIFEST.json from the table below (kept here so the manifest stays valid and consistent)."""
import json, os
ROOT = os.path.dirname(os.path.dirname(os.path.abspath(__file__)))
ALL = ["C%02d" % i for i in range(1, 21)]
NOTE = ("Trusted: Coq 8.16.1 kernel (vm_compute for evaluating the model on cases), hand-written Gallina model of the anchored code "
        "(modelled, tied to /repo by the per-run differential correspondence check, which samples), Python generators/renderers and Rust harness, "
        "syn/proc-macro2/quote/ident_case/strsim/std as they are. No axioms: every theorem must print 'Closed under the global context'.")
CHECKS = {
 "C04": ("Coq theorems over all error trees / all builder expressions: len = #leaves >= 1, multiple singleton, flatten = leaves in order with full ancestor paths, "
         "idempotence, Display shape, one diagnostic per leaf with the leaf's message, API-reachable trees are proper, only multiple(vec![]) panics. "
         "Tied to core/src/error/{mod,kind}.rs by evaluating random builder expressions through the real API and through the model inside Coq on every run.",
         "Coq proof (induction over nested error trees) + per-run differential correspondence"),
 "C05": ("Coq refinement theorem: for every finite history over the twelve accumulator operations the trace equals that of the abstract specification "
         "'a list that only grows' (finish Ok iff nothing recorded, bundle = recorded errors in order, handle, checkpoint, drop bomb incl. unwinding, no other panic). "
         "Tied to the real Accumulator by running random histories (catch_unwind, drop during unwinding) against model and specification inside Coq.",
         "Coq proof (refinement to abstract spec by induction over histories) + per-run differential correspondence"),
}
RECV = ("Coq model Run/Recv.v of the parsers the derives generate (impl_of : ty -> implementer, by structural recursion over a universe of field types: library targets, wrappers, derived structs / newtypes / "
        "unit structs / enums, any nesting): declarations, core loop, flatten hand-off, presence checks, the single early return, defaults, initialisers, post-transforms. ")
CHECKS["C11"] = ("Coq theorems: std's checked digit loop (as used by both the quoted and unquoted path) accepts exactly the signed decimal numerals whose mathematical value is in the target's range "
         "(non-zero for NonZero) and returns that value, for all 24 targets and digit strings of any length; unquoted/quoted exactness, quoted = unquoted for plain decimals, no input yields an "
         "out-of-range value, every rejection is a spanned error and never a panic; bool/char/String tables; floats relative to the std oracle. Tied to core/src/from_meta.rs by running "
         "boundary/odd/wrong-form literals through the real from_meta and the model inside Coq (thorough: exhaustive [-70000,70000] x 24 x 2 interval sweep).",
         "Coq proof (loop invariant over digit lists, Z arithmetic) + per-run differential correspondence")
CHECKS["C12"] = ("Coq theorems for an ARBITRARY inner implementer T (any set of overridden hooks) and every meta item: Option, Box/Rc/Arc/RefCell, darling::Result (never fails, holds T's outcome), "
         "Result<T,Meta> (keeps the original item), SpannedValue (value's own range), WithOriginal (copy of the item), Override (word = Inherit, every other form exactly T), the absent table, "
         "two-level compositions. Tied to the code by running W<T>::from_meta(m) and T::from_meta(m) on the same m for 10 wrappers x 11 inner targets and all 100 two-level compositions.",
         "Coq proof (record-of-overrides model of the trait, quantified over all implementers) + per-run differential correspondence")
CHECKS["C13"] = ("Coq theorems relative to syn's grammars as oracles: a bare expression / path is returned token for token through any nesting of invisible groups, a string literal is its contents "
         "re-parsed by the same grammar, bare and quoted spellings agree under syn's print/parse round trip, every other form is rejected with an error spanned at the expression, literal vectors "
         "are element-wise in order, literal targets keep the user's token, the two expression helpers differ only on a string literal. Tied to the code by running every syntax-valued target "
         "of from_meta.rs / util on a grammar of paths, identifiers, expressions, types and literals (bare, quoted, grouped).",
         "Coq proof (structural induction over expressions / groups, oracle-relative) + per-run differential correspondence")
CHECKS["C14"] = ("Coq theorems for any key kind and ANY value implementer: the single-pass map builder equals a per-item comprehension (fold invariant), it succeeds iff every item is named, "
         "every key converts, keys are pairwise distinct and every value converts; then one entry per item in order with NoDup keys; otherwise leaf count = literals + repeats + bad keys + value leaves. "
         "Tied to the map! macro by random lists over all five instantiations, with the element type run on every item so the specification is evaluated on the implementation's own outputs; hash/ordered twins compared.",
         "Coq proof (fold-left invariant, refinement to a comprehension) + per-run differential correspondence")
CHECKS["C15"] = ("Coq theorems: (A) over a pre-lexed stream, parse_meta_list accepts exactly comma-separated item sequences with optional trailing comma (soundness + completeness of the parse_terminated loop), "
         "items in stream order, classification facts; (B) for ANY implementer (any subset of overridden hooks): the routing table by form, groups exactly transparent at any depth, default hooks reject with "
         "the documented kind, returned errors are spanned and already-spanned errors unchanged. Tied to the code by grammar-generated token streams + single-token mutations (table computed with syn alone) "
         "and by 128 probe implementers x 3 modes.",
         "Coq proof (induction over fuel / derivations; quantified over all implementers) + per-run differential correspondence")
CHECKS["C18"] = ("Coq theorems for every declaration (any subset of the eleven words) and every body with any number of variants: the emitted validator accepts exactly the documented table, "
         "words are additive, tuple admits newtype but not conversely, struct/enum words do not mix, one error per non-conforming variant, a union is an error and no body panics, the stand-alone "
         "ShapeSet API agrees with the derived code. Tied to the code by the exhaustive run-time API (16 sets x 4 shapes), 121 compiled FromDeriveInput receivers + 40 newtype receivers declaring the same sets around an accept-all inner receiver x struct/enum/union bodies and all 32 FromVariant subsets.",
         "Coq proof (case analysis + induction over variant lists) + per-run differential correspondence against compiled receivers")
CHECKS["C19"] = ("Coq theorems over the mirrored syn::Type grammar (every form, any depth), all query sets, both purposes: the analysis returns exactly the members of the set that occur where they denote "
         "the parameter (inductive relation occurs_tp: leading unqualified segment, generic arguments - those written on the name of a generic associated type included -, through references/pointers/slices/arrays/tuples/fn and trait-object types, qself only for Declare), "
         "never a name outside the set (type params and lifetimes), collections are unions, non-use positions. Tied to the code by grammar-generated types with parameters planted at use and non-use positions "
         "(the planting is the ground truth), the syn tree mirrored into the model by the harness. The impl-header half is checked through derive::*: the conversion trait's bound (FromMeta; for a newtype receiver the derived trait itself) is on exactly the declared parameters used by parsed fields (the field of a newtype is parsed whatever its options say), no other darling bound, own bounds and where-clause unchanged.",
         "Coq proof (induction over a nested syntax tree against an inductive occurrence relation) + per-run differential correspondence")
CHECKS["C06"] = ("Coq theorems over a transliteration of core/src/options (all parse_nested chains, parse_attributes / parse_body / validate_body with the accumulator discipline and every `?`): for every declaration "
         "and each of the six derives the outcome is an accepted receiver xor a rejection with at least one error; unions, enums under element-level traits and unrepresentable tuple bodies are rejections. "
         "Tied to the code by (1) a grammar of DeriveInput items with #[darling] attributes from well-formed lists to arbitrary token trees on container/variant/field positions run through darling_core::derive::* "
         "under catch_unwind and compared with the model on accept/reject and diagnostics, (2) the observation-level predicate (exactly one impl of the requested trait xor diagnostics, no panic), "
         "(3) an inventory of every panic site of core/src and macro/src with the reason it is unreachable.",
         "Coq proof (case analysis over a transliterated validator) + per-run differential correspondence + panic-site inventory")
CHECKS["C10"] = ("Coq model Options/Resolve.v of the order-sensitive derive-time validation and an ORDER-FREE executable reading of the property (Spec/C10.v: counts over the set of options of each element, body rules); "
         "theorems: a rejection is never empty; the FIELD option chain (any item list, any order, any split over #[darling] attributes) accepts iff an order-free predicate on option kinds holds - by refinement of the item fold to an abstract state machine and a reflective sweep over all abstract configurations (forallb by vm_compute lifted with forallb_forall) - hence field acceptance is order- and split-invariant; the same for the VARIANT option chain (each of rename / skip / word at most once, word only on a unit variant), by direct induction; the CONTAINER option chain of every derive is characterised exactly (refinement to a five-bit machine: once-only options at most once, no `default` after `default` or `from_ident`; order-free where from_ident is absent); the one order dependence of the container chain (from_ident before default) is proved as a _refuted theorem and listed as the known finding; the executable reading evaluated on the code in every run (field_wf, variant options, container_wf of Spec/C10.v: counts of option names and accepted value forms, no state) is PROVED equal to the model's chains for every attribute list, order and split (Options/SpecBridge.v; container: plus the clause `no default after from_ident`), and COMPOSED through parse_body / validate_body into `resolve = Accepted <-> well_formed_10 and no default after from_ident` for all six derives and every declaration (Options/ComposeProofs.v; hypothesis decl_shapedb evaluated on every declaration run); the correspondence check compares model and code on accept/reject AND on every diagnostic's position and message, in order, and evaluates the order-free "
         "specification on the code's verdict - exhaustively for all ordered singles/pairs/(triples) of field options x every attribute split, all ordered pairs of container options, variant option subsets, body rules, six derives.",
         "Coq proof (refinement to an abstract option-kind machine + reflective finite sweep; order/split invariance) + order-free executable specification evaluated on the implementation's verdict; per-run differential correspondence (exhaustive over option pairs/triples and attribute splits)")
CHECKS["C03"] = ("Coq theorems: with_span only fills an empty span (first writer wins), locations and spans are independent, flatten()/into_vec yield the leaves each with its own span or else its nearest "
         "spanned enclosing bundle's (plain tree traversal as specification), one compiler diagnostic per leaf at that span (call site + path in the message only for a leaf with no span at all), a spanned "
         "root spans every leaf; for EVERY FromMeta implementer the default methods return spanned errors and never replace an inner span; for every derived struct level each recorded error is spanned "
         "(item span unless the field's conversion attached a more specific one); for derived receivers of ANY shape and depth (induction over the type universe) and every positionally well-formed input, "
         "every leaf of the error returned for a meta item is spanned inside that item (impl_inside), with the leaf contract proved for the plain library targets and no assumption left for the instance the check runs "
         "(checked_instance_inside; the input hypothesis is evaluated on every case by wfpb, proved sound). Tied to the code by (A) random error-builder histories with spans compared on value / flatten / syn::Error / write_errors, "
         "(B) compiled corpus receivers on faulty inputs parsed from source text (every leaf spanned, inside the input, equal to a node's own range, inside a top-level item named by its location) with the model "
         "compared span for span, (C) scalar targets (rejections spanned inside the value).",
         "Coq proof (induction over error trees; quantified over all implementers / field lists) + per-run differential correspondence with real line/column spans")
CHECKS["C09"] = (RECV + "Theorems for ANY enum (any variant list, field types, user callables): an item's name is its path as written except that r#name is name, a global path (::name) selects no variant declared without leading colons; list arity for every length (too many: blamed on the first surplus item; a literal: on the literal), one item selects the FIRST non-skipped variant with that effective name and runs its arm, "
         "the string form reaches unit / absentable-newtype variants only, a produced variant is never skipped (list and string forms), word / absent succeed only if declared, every other value kind is an error. "
         "Tied to the code by all 50 enum receivers of the compiled corpus x every form x every spelling of every variant (identifier, all case rules, skipped ones, unknown names, quoted inside the list, ::name, r#name) with Spec/C01.v evaluated on the real output.",
         "Coq proof (induction over variant lists, for any implementers) + specification evaluated on the implementation's output; per-run differential correspondence against compiled receivers")
CHECKS["C17"] = ("Coq theorems for ANY similarity function: did_you_mean equals the argmax specification (first candidate of maximal similarity among those above the threshold; None iff none exceeds it), feature off = no "
         "suggestion, add_alts never replaces a better or equal suggestion nor removes one, sibling alternates leave every located error (to any depth) unchanged and only touch unknown-field leaves whose whole path is empty; "
         "at any struct level the candidates are exactly the addressable names, so a suggestion is never skipped / flatten / the rejected name and would be accepted; likewise for enums over non-skipped variants. "
         "Tied to the code by corpus receivers x unknown names at edit distance 0-3 from valid / skipped / enclosing names at every depth: each unknown-field leaf is resolved to its position through its location path and "
         "must carry exactly the argmax suggestion for the names valid there (strsim scores per case); repeated with the suggestions feature off.",
         "Coq proof (loop = argmax, induction over candidate lists and error trees, for any similarity function) + per-run differential correspondence incl. feature-off build")
CHECKS["C08"] = ("Coq model Run/Outer.v of the attribute extractor the element-level derives generate (name match, bare / empty / name-value / malformed forms, forward arms, value populator) sharing the item loop and "
         "parser state of Run/Recv.v. Theorems for ANY receiver declaration: the extractor equals the item loop over the CONCATENATION of the selected attributes' items plus the filter of forwarded attributes, so every "
         "partition of the same items (bare / empty attributes interspersed, unrelated attributes anywhere) gives the identical state, value or errors; unselected, unforwarded attributes are inert whatever their tokens; "
         "the attrs member is exactly the non-consumed attributes selected by forward_attrs, in order. Tied to the code by 71 compiled element-level receivers (two declaring global paths) x elements whose items are split over 0-4 attributes "
         "with noise attributes interleaved, each also run on its canonical single-attribute re-partition (outcomes compared span-insensitively) and on the forwarded-list specification.",
         "Coq proof (fold over attributes = fold over concatenated items, for any receiver) + metamorphic twin and forwarding specification evaluated on the implementation's output; per-run differential correspondence")
CHECKS["C16"] = ("Coq model Run/Outer.v of the magic members and body conversion (Data::try_from, Fields::try_from, generics mirror, base impls of the element traits, SpannedValue / WithOriginal / Result wrappers). Theorems: element-wise "
         "conversion succeeds iff every element does and then keeps style and exactly one entry per field / variant in source order; otherwise it fails iff some element fails and reports ALL failures (leaf count = sum) - for an enum body the bundle, in order, of every failing variant's error located under the variant's name; mirrored generics keep the where-clause and one entry per parameter and report every failing parameter; "
         "a union is an error; a field receiver's ident / vis / ty members are the field's own parts; built-in element targets are projections. Tied to the code by 71 compiled receivers declaring subsets of the magic members x "
         "items of every struct style (0-6 fields), enums (0-6 mixed variants, discriminants), unions, generics with lifetimes / types / consts / where-clauses, every visibility form: pass-through members compared with the "
         "element's parts read directly from syn, kind / style / count of data and fields, Fields<syn::Field> re-printed against the original tokens.",
         "Coq proof (accumulation lemmas, for any element converters) + projection specification evaluated on the implementation's output; per-run differential correspondence")
CHECKS["C20"] = ("PARTIAL by nature: that emitted code type-checks is decided by rustc and is OBSERVED, not proved. Proved (Coq, Properties/C20.v over Options/Emit.v): every local the emitted functions declare next to the "
         "receiver's field locals starts with a double underscore, hence is disjoint from all ordinary field / variant / generic names (raw identifiers and option words included) and the locals of one function are pairwise "
         "distinct. Observed on every run: (1) a crate generated from the seed - 150 (quick) / 600 (thorough) accepted receivers over the option space of C01 / C09 / C16, six derives, generics in every position, adversarial "
         "names, each in a module shadowing prelude variants / prelude types / vec! and format! / crate names - compiled against /repo's working tree as a crate depending on darling ONLY, every rustc error mapped back to its "
         "receiver; (2) three callables referring to generated locals must be rejected by rustc; (3) the inventory of the code derive::* emits for the same declarations: every global path rooted at ::darling, every binder a "
         "field, a double-underscore local listed in Options/Emit.v or a known inner-scope binder, no unqualified type / variant / macro name. The compiled corpora of C01 / C09 / C16 (233 receivers) are built by every check as well.",
         "Coq proof of the hygiene clause + compilation of generated receiver crates (rustc as oracle) + emitted-code inventory through derive::*")
CHECKS["C01"] = (RECV + "MAIN THEOREM (Run/SpecSound.v expected_sound, Run/SpecComplete.v expected_complete; induction over the universe of receiver types): for every receiver of any depth and every meta item, "
         "the generated parser returns Ok v EXACTLY when the independently written per-field specification Spec/C01.v gives the input the value v (soundness under wf_spec = what derive time and Rust guarantee; "
         "completeness additionally for declarations without darling::Result fields and with struct flatten members); wf_specb, its executable test, is proved sound and evaluated on every receiver run. "
         "Level theorems (Run/LoopProofs.v, LevelProofs.v) for ANY field list, field-type implementers, user callables and EVERY item list: the item loop IS a per-field comprehension "
         "(loop_is_spec: slot of field i = conversion of the first item addressed to it / all of them for `multiple`; flatten buffer = unaddressed items in order), a field's slot depends on its own occurrences only, "
         "reordering across fields changes nothing, and when the level succeeds every field holds exactly its initialiser applied to its final slot (own occurrences, or unclaimed items for the flatten member, else the "
         "type's value-for-absent, else its default). The property itself is the executable per-FIELD specification Spec/C01.v `expected`, evaluated in Coq on the value the real derived code returned for 193 compiled corpus "
         "receivers x receiver-directed mistake-free inputs (all six traits: element-level receivers through C08 / C16's corpus); model and code are compared on every case.",
         "Coq proof (loop invariant = per-field comprehension, for any converters) + per-field executable specification evaluated on the implementation's output; per-run differential correspondence against compiled receivers")
CHECKS["C02"] = (RECV + "MAIN THEOREM (Run/SpecCount.v mistakes_count, induction over the universe of receiver types): for every receiver of any depth and every meta item the error the generated parser returns has EXACTLY "
         "as many leaves as the per-field specification counts mistakes in the input (literals, unaddressed names, repeats, missing required items, recursively the mistakes inside values), at least one, and a value "
         "is returned only when the count is zero; kwfb, the executable test of its hypotheses, is proved sound and evaluated on every receiver run. Theorem C02_fails_exactly_on_mistaken_inputs: for every receiver of any depth the parser returns no value exactly when the per-field specification finds the input mistaken. Theorems for ANY field list / implementers / callables and EVERY item list: the recorded errors are item by item what each item contributes given only its predecessors (literal, repeat, unaddressed name, "
         "rejected value), exactly one error per mistaken item and none otherwise (count theorem), in input order; the loop never returns early; the level fails only through its single early return with the bundle of ALL "
         "recorded errors (loop, flatten member, missing fields). The property is Spec/C01.v: parsing fails iff `expected` is undefined, and then the error has exactly `mistakes` leaves (recursively through nested receivers, "
         "enum variants and maps), evaluated on the real output for inputs with 0-8 injected mistakes at every depth (incl. malformed nested lists).",
         "Coq proof (per-item error comprehension, count theorem, single early return) + counting specification evaluated on the implementation's output; per-run differential correspondence against compiled receivers")
CHECKS["C07"] = (RECV + "Theorems: for EVERY derived receiver type (structs, newtypes, unit structs, enums, Option / Box / darling::Result wrappers, nested to any depth) from_meta and from_list return a value or an error on "
         "every meta item / item list (induction over the type universe), given total leaf targets and user callables and a declaration the derives accept; the struct level's `expect(\"Uninitialized fields...\")` is "
         "unreachable (after the error check a slot is empty only if its field has a default); the leaf assumption is discharged for the plain library targets (unit, bool, AtomicBool, char, String, PathBuf, 24 integer types, "
         "floats, Flag - whose unwrap_err can never meet an Ok - and Option / pointers / Result / maps over them); integer conversions and default dispatchers total. Every corpus receiver (FromMeta and element-level) is run "
         "under catch_unwind on mistake-free, faulty and degenerate inputs (unions, empty enums, malformed lists at every depth, 44-digit integers) and compared with the model; panic-site inventory shared with C06.",
         "Coq proof (induction over the receiver type universe; level invariant) + per-run differential correspondence under catch_unwind; panic-site inventory")
PARTIAL = {"C20": " PARTIAL: rustc's type checking cannot be modelled in Coq here; the compile clause is observed on generated crates, the hygiene clause is proved.", "C07": " PARTIAL: stack exhaustion at extreme nesting and debug-build arithmetic overflow are run-time behaviour the model cannot exhibit; element-level entry points are covered by C08/C16's machinery."}
def chk(pid):
    text, tech = CHECKS[pid]
    return {"property_id": pid, "quick_cmd": "./check %s --tier quick" % pid, "thorough_cmd": "./check %s --tier thorough" % pid,
            "evidence_file": "evidence/%s.json" % pid, "replay_cmd_template": "./check %s --replay {path}" % pid,
            "engine": "coq-model", "level_claimed": {"category": "proof", "text": text, "design_ref": "DESIGN.md section 6, " + pid},
            "level_note": NOTE + PARTIAL.get(pid, ""), "technique": tech}
m = {
 "version": 1,
 "setup_cmd": "./setup.sh",
 "hooks": {"guard": "darling_verif", "enable": "no hooks are needed: every observation goes through darling's public API (harness crates under /verif/harness path-depend on /repo)",
           "baseline_off_cmd": "cd /repo && cargo test --workspace --no-fail-fast --offline",
           "source_commits": [], "add_only": True},
 "engines": [{"name": "coq-model", "path": "coq/", "serves_properties": sorted(CHECKS), "kind_free_text": "Gallina model + theorems (Coq 8.16.1, full .vo build) and differential correspondence: real API via Rust harness vs model evaluated by vm_compute inside coqc"}],
 "checks": [chk(p) for p in sorted(CHECKS)],
 "not_applicable": [{"property_id": p, "reason": "not yet built (work in progress, planned per DESIGN.md section 10); not a claim that the technique cannot apply"} for p in ALL if p not in CHECKS],
 "notes": "See DESIGN.md. Every check (1) rebuilds the property's theorems, re-checks Print Assumptions and scans for forbidden vernacular, (2) runs generated cases through /repo's working tree and through the model inside Coq, (3) evaluates the property's executable specification on the implementation's own output.",
}
json.dump(m, open(os.path.join(ROOT, "MANIFEST.json"), "w"), indent=1)
