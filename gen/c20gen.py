"""C20: generation of accepted receiver declarations in adversarial surroundings, as one Rust crate (harness/vh-c20/src/lib.rs),
one receiver module per LINE so that a rustc diagnostic is mapped back to the receiver that caused it."""
import random

S = "crate::ustd::string::String"
OPT = "crate::ustd::option::Option<%s>"
VEC = "crate::ustd::vec::Vec<%s>"
BOX = "crate::ustd::boxed::Box<%s>"
PD = "crate::ustd::marker::PhantomData<%s>"
META = "&::darling::export::syn::Meta"

LEAVES = ["u8", "bool", "i64", "char", S, OPT % "u8", OPT % S, "::darling::util::Flag", "crate::ustd::collections::HashMap<%s, u8>" % S, BOX % "u8",
          "::darling::util::SpannedValue<u8>", "::darling::util::Override<u8>", "::darling::export::syn::Path", "::darling::export::syn::Expr", "f64"]
DEFAULTABLE = ["u8", "bool", "i64", S, OPT % "u8", OPT % S, "::darling::util::Flag"]

# names that could clash with what the emitted code declares or says
FIELD_NAMES = ["alpha", "beta", "r#type", "r#fn", "r#match", "r#struct", "default", "skip", "rename", "with", "map", "flatten", "multiple", "word",
               "attributes", "supports", "errors", "items", "inner", "e", "lit", "item", "name", "val", "len", "other", "value", "variant",
               "input", "field", "fields_", "result", "ok", "err", "some", "none", "vec", "string", "option", "identity", "darling", "from_meta",
               "flag", "count", "struct_check", "enum_check", "variant_errors", "struct_data", "body"]
VARIANT_NAMES = ["Alpha", "Beta", "Default", "Skip", "Word", "Rename", "Ok", "Err", "Some", "None", "Vec", "Option", "Result", "r#Type", "Meta", "Path",
                 "List", "NameValue", "Item", "Inner", "Error", "FromMeta", "Unit"]

SHADOWS = [
    ("none", ""),
    ("prelude-variants", "#[allow(dead_code)] pub struct Ok; #[allow(dead_code)] pub struct Err; #[allow(dead_code)] pub struct Some; #[allow(dead_code)] pub struct None;"),
    ("prelude-types", "#[allow(dead_code)] pub struct Vec; #[allow(dead_code)] pub struct Option; #[allow(dead_code)] pub struct Result; #[allow(dead_code)] pub struct String; "
                      "#[allow(dead_code)] pub struct Box; #[allow(dead_code)] pub struct Default;"),
    ("macros", "#[allow(unused_macros)] macro_rules! vec { ($($t:tt)*) => { compile_error!(\"the receiver's own vec! was used\") } } "
               "#[allow(unused_macros)] macro_rules! format { ($($t:tt)*) => { compile_error!(\"the receiver's own format! was used\") } }"),
    ("crate-names", "#[allow(dead_code)] pub fn identity() {} #[allow(dead_code)] pub trait FromMeta {} #[allow(dead_code)] pub mod darling {} #[allow(dead_code)] pub mod syn {} "
                    "#[allow(dead_code)] pub mod core {} #[allow(dead_code)] pub mod std {} #[allow(dead_code)] pub struct Error; #[allow(dead_code)] pub struct Self_;"),
]


def attr(items):
    return "#[darling(%s)] " % ", ".join(items) if items else ""


class Gen:
    def __init__(self, seed):
        self.rng = random.Random(seed)
        self.recvs = []          # dicts: idx, trait, src, shadow, features (for the evidence), generic
        self.simple = []         # indices of non-generic FromMeta struct receivers usable as nested types

    def field_names(self, n):
        return self.rng.sample(FIELD_NAMES, n)

    def gen_fields(self, n, generics, allow_flatten=True, bound_default=False):
        """returns (list of field source strings, set of features, user fn sources)"""
        rng = self.rng
        out, feats, fns = [], set(), []
        names = self.field_names(n)
        flat_done = False
        t_used_plain = False
        for i, nm in enumerate(names):
            it = []
            ty = rng.choice(LEAVES)
            r = rng.random()
            fn_id = nm.replace("r#", "")
            if generics and r < 0.35:
                mode = rng.choice(["plain", "option", "box", "multiple", "flatten", "phantom"])
                if mode == "flatten" and (flat_done or not allow_flatten):
                    mode = "plain"
                if mode == "plain":
                    ty = "T"
                    t_used_plain = True
                elif mode == "option":
                    ty = OPT % "T"
                elif mode == "box":
                    ty = BOX % "T"
                elif mode == "multiple":
                    ty = VEC % "T"
                    it.append("multiple")
                elif mode == "flatten":
                    ty = rng.choice(["T", BOX % "T"])
                    it.append("flatten")
                    flat_done = True
                else:
                    ty = PD % "T"
                    it.append("skip")
                feats.add("generic:" + mode)
            elif r < 0.45 and self.simple and allow_flatten and not flat_done and rng.random() < 0.5:
                k = rng.choice(self.simple)
                ty = "super::m%d::R%d" % (k, k)
                it.append("flatten")
                flat_done = True
                feats.add("flatten")
            elif r < 0.55 and self.simple:
                k = rng.choice(self.simple)
                ty = "super::m%d::R%d" % (k, k)
                feats.add("nested")
            elif r < 0.65:
                ty = VEC % rng.choice(["u8", S, "bool"])
                it.append("multiple")
                feats.add("multiple")
            elif r < 0.72:
                ty = rng.choice(DEFAULTABLE)
                it.append("skip")
                feats.add("skip")
            if "flatten" not in it and "skip" not in it:
                q = rng.random()
                if q < 0.2:
                    it.append('rename = "%s"' % rng.choice(["x", "y-z", "Q", "type", "r_" + fn_id]))
                    feats.add("rename")
                q = rng.random()
                if q < 0.12 and ty == "u8" and "multiple" not in it:
                    if rng.random() < 0.5:
                        fns.append("fn w_%s(m: %s) -> ::darling::Result<u8> { <u8 as ::darling::FromMeta>::from_meta(m) }" % (fn_id, META))
                        it.append("with = w_%s" % fn_id)
                        feats.add("with-path")
                    else:
                        it.append("with = |m| <u8 as ::darling::FromMeta>::from_meta(m)")
                        feats.add("with-closure")
                elif q < 0.2 and ty == "u8":
                    fns.append("fn p_%s(v: u8) -> u8 { v }" % fn_id)
                    it.append("map = p_%s" % fn_id)
                    feats.add("map")
                elif q < 0.26 and ty == "u8":
                    fns.append("fn a_%s(v: u8) -> ::darling::Result<u8> { ::darling::export::Ok(v) }" % fn_id)
                    it.append("and_then = a_%s" % fn_id)
                    feats.add("and_then")
                q = rng.random()
                if q < 0.15 and ty in DEFAULTABLE:
                    it.append("default")
                    feats.add("default")
                elif q < 0.25 and ty == "u8" and "multiple" not in it:
                    fns.append("fn d_%s() -> u8 { 7 }" % fn_id)
                    it.append("default = d_%s" % fn_id)
                    feats.add("default-path")
            if nm.startswith("r#"):
                feats.add("raw-ident")
            out.append("%spub %s: %s" % (attr(it), nm, ty))
        if generics and not any(f.startswith("generic:") for f in feats):
            out.append("#[darling(skip)] pub phantom_t: %s" % (PD % "T"))
            feats.add("generic:phantom")
        return out, feats, fns

    def container_items(self, name, generics, all_defaultable):
        rng = self.rng
        it, feats, fns = [], set(), []
        gp = "<T>" if generics else ""
        tyn = name + gp
        if rng.random() < 0.35:
            it.append('rename_all = "%s"' % rng.choice(["lowercase", "PascalCase", "camelCase", "snake_case", "SCREAMING_SNAKE_CASE", "kebab-case"]))
            feats.add("rename_all")
        if rng.random() < 0.15:
            it.append("allow_unknown_fields")
            feats.add("allow_unknown_fields")
        q = rng.random()
        if q < 0.12:
            fns.append("fn cm%s(v: %s) -> %s { v }" % (gp, tyn, tyn))
            it.append("map = cm")
            feats.add("container-map")
        elif q < 0.22:
            fns.append("fn ca%s(v: %s) -> ::darling::Result<%s> { ::darling::export::Ok(v) }" % (gp, tyn, tyn))
            it.append("and_then = ca")
            feats.add("container-and_then")
        return it, feats, fns

    def add(self, trait, body, shadow_k, feats, generic):
        idx = len(self.recvs)
        sh_name, sh_src = SHADOWS[shadow_k]
        src = "#[allow(non_camel_case_types, non_snake_case, unused_imports, dead_code)] pub mod m%d { %s %s }" % (idx, sh_src, body.replace("R__", "R%d" % idx))
        self.recvs.append({"idx": idx, "trait": trait, "src": src, "shadow": sh_name, "features": sorted(feats), "generic": generic})
        return idx

    def gen_struct_meta(self, shadow_k):
        rng = self.rng
        generics = rng.random() < 0.35
        n = rng.choice([1, 2, 3, 4, 5])
        fields, feats, fns = self.gen_fields(n, generics)
        cit, cf, cfns = self.container_items("R__", generics, False)
        feats |= cf
        fns += cfns
        gp = "<T>" if generics else ""
        gp_decl = gp
        derives = ["::darling::FromMeta"]
        # container default needs Self: Default
        if rng.random() < 0.2 and not any("super::" in f or "Flag" in f or "Override" in f or "SpannedValue" in f or "syn::" in f or "f64" in f or "HashMap" in f for f in fields):
            derives.append("Default")
            cit.append("default")
            feats.add("container-default")
            if generics:
                # `#[darling(bound = ..)]` is parsed but never applied by the derives, so the bound derive(Default) needs goes on the type itself
                gp_decl = "<T: crate::ustd::default::Default>"
                feats.add("generic-default")
        if rng.random() < 0.1:
            cit.append("from_word = || ::darling::export::Err(::darling::Error::custom(\"w\"))")
            feats.add("from_word-closure")
        if rng.random() < 0.1:
            cit.append("from_none = || ::darling::export::None")
            feats.add("from_none-closure")
        if gp_decl != gp:
            fns = [f.replace("fn cm<T>", "fn cm<T: crate::ustd::default::Default>").replace("fn ca<T>", "fn ca<T: crate::ustd::default::Default>") for f in fns]
        body = "%s #[derive(%s)] %spub struct R__%s { %s }" % (" ".join(fns), ", ".join(derives), attr(cit), gp_decl, ", ".join(fields))
        idx = self.add("FromMeta", body, shadow_k, feats, generics)
        if not generics and "container-default" not in feats:
            self.simple.append(idx)

    def gen_enum_meta(self, shadow_k):
        rng = self.rng
        generics = rng.random() < 0.25
        nv = rng.choice([1, 2, 3, 4])
        names = rng.sample(VARIANT_NAMES, nv)
        vs, feats, fns = [], set(), []
        word_done = False
        for nm in names:
            it = []
            style = rng.choice(["unit", "unit", "newtype", "struct"])
            if rng.random() < 0.15:
                it.append('rename = "v_%s"' % nm.replace("r#", "").lower())
            if rng.random() < 0.12:
                it.append("skip")
                feats.add("variant-skip")
            if style == "unit":
                if not word_done and "skip" not in it and rng.random() < 0.3:
                    it.append("word")
                    word_done = True
                    feats.add("word")
                vs.append("%s%s" % (attr(it), nm))
            elif style == "newtype":
                ty = rng.choice(LEAVES + (["T", OPT % "T"] if generics else []))
                vs.append("%s%s(%s)" % (attr(it), nm, ty))
                feats.add("variant-newtype")
            else:
                fields, ff, ffns = self.gen_fields(rng.choice([0, 1, 2, 3]), generics, allow_flatten=False)
                fns += ffns
                feats |= ff
                vs.append("%s%s { %s }" % (attr(it), nm, ", ".join(f.replace("pub ", "", 1) if not f.startswith("#") else f.replace("] pub ", "] ", 1) for f in fields)))
                feats.add("variant-struct")
            if nm.startswith("r#"):
                feats.add("raw-ident")
        cit = []
        if rng.random() < 0.3:
            cit.append('rename_all = "%s"' % rng.choice(["lowercase", "PascalCase", "camelCase", "snake_case", "SCREAMING_SNAKE_CASE", "kebab-case"]))
        if rng.random() < 0.15:
            cit.append("allow_unknown_fields")
        gp = "<T>" if generics else ""
        uses_t = generics and any(f.startswith("generic:") for f in feats) or any(v.endswith("(T)") or "<T>" in v for v in vs)
        if generics and not uses_t:
            vs.append("#[darling(skip)] Phantom(%s)" % (PD % "T"))
        body = "%s #[derive(::darling::FromMeta)] %spub enum R__%s { %s }" % (" ".join(fns), attr(cit), gp, ", ".join(vs))
        self.add("FromMeta", body, shadow_k, feats | {"enum"}, generics)

    def gen_element(self, shadow_k, kind):
        rng = self.rng
        generics = rng.random() < 0.25
        fields, feats, fns = self.gen_fields(rng.choice([0, 1, 2, 3]), generics)
        magic = []
        cit = ["attributes(u_attr%s)" % rng.choice(["", ", other", ", my::tool"])]
        ID = "::darling::export::syn::Ident"
        if kind == "FromAttributes":
            pass
        else:
            if rng.random() < 0.6:
                magic.append("pub ident: %s" % ((OPT % ID) if kind == "FromField" else ID))
            if kind in ("FromDeriveInput", "FromField") and rng.random() < 0.5:
                magic.append("pub vis: ::darling::export::syn::Visibility")
            if kind == "FromField" and rng.random() < 0.5:
                magic.append("pub ty: ::darling::export::syn::Type")
            if kind == "FromDeriveInput":
                if rng.random() < 0.5:
                    magic.append("pub generics: %s" % rng.choice(["::darling::export::syn::Generics", "::darling::ast::Generics<::darling::ast::GenericParam>"]))
                if rng.random() < 0.5:
                    magic.append("pub data: ::darling::ast::Data<%s, %s>" % (rng.choice(["()", "::darling::util::Ignored", ID]),
                                                                          rng.choice(["()", "::darling::export::syn::Field", "::darling::export::syn::Type"])))
                if rng.random() < 0.3:
                    cit.append("supports(%s)" % rng.choice(["any", "struct_named", "struct_any, enum_unit", "enum_any"]))
            if kind == "FromVariant":
                if rng.random() < 0.5:
                    magic.append("pub discriminant: %s" % (OPT % "::darling::export::syn::Expr"))
                if rng.random() < 0.5:
                    magic.append("pub fields: ::darling::ast::Fields<%s>" % rng.choice(["()", "::darling::export::syn::Field"]))
                if rng.random() < 0.3:
                    cit.append("supports(%s)" % rng.choice(["unit", "named, tuple", "newtype"]))
            if kind == "FromTypeParam":
                if rng.random() < 0.5:
                    magic.append("pub bounds: %s" % (VEC % "::darling::export::syn::TypeParamBound"))
                if rng.random() < 0.5:
                    magic.append("pub default: %s" % (OPT % "::darling::export::syn::Type"))
        if rng.random() < 0.5:
            q = rng.random()
            if q < 0.7:
                magic.append("pub attrs: %s" % (VEC % "::darling::export::syn::Attribute"))
            else:
                fns.append("fn fa(a: %s) -> ::darling::Result<usize> { ::darling::export::Ok(a.len()) }" % (VEC % "::darling::export::syn::Attribute"))
                magic.append("#[darling(with = fa)] pub attrs: usize")
                feats.add("attrs-with")
            cit.append(rng.choice(["forward_attrs", "forward_attrs(doc, allow)", "forward_attrs()"]))
            feats.add("forward_attrs")
        # the magic names must not also be drawn as ordinary names
        fields = [f for f in fields if not any((" %s:" % m.split(":")[0].split()[-1]) in (" " + f) for m in magic)]
        c2, cf, cfns = self.container_items("R__", generics, False)
        gp = "<T>" if generics else ""
        body = "%s #[derive(::darling::%s)] %spub struct R__%s { %s }" % (" ".join(fns + cfns), kind, attr(cit + c2), gp, ", ".join(magic + fields))
        self.add(kind, body, shadow_k, feats | cf | {"element"}, generics)

    def gen_macro_rules(self):
        """receivers declared THROUGH macro_rules!: field types, callables, names and whole field lists arrive as macro fragments, whose tokens carry
        the hygiene of the macro; the emitted impl must still find its own locals"""
        ATTRS = VEC % "::darling::export::syn::Attribute"
        decls = [
            ("mr-type-ident", "FromMeta",
             "macro_rules! mk { ($n:ident, $t:ident) => { #[derive(::darling::FromMeta)] pub struct $n { pub a: $t, #[darling(multiple)] pub b: crate::ustd::vec::Vec<$t> } } } mk!(R__, u8);"),
            ("mr-type-ty", "FromMeta",
             "macro_rules! mk { ($n:ident, $t:ty) => { #[derive(::darling::FromMeta)] pub struct $n { pub a: $t, #[darling(default)] pub b: $t } } } mk!(R__, u8);"),
            ("mr-with-path", "FromMeta",
             "fn conv(m: %s) -> ::darling::Result<u8> { <u8 as ::darling::FromMeta>::from_meta(m) } "
             "macro_rules! mk { ($n:ident, $p:path) => { #[derive(::darling::FromMeta)] pub struct $n { #[darling(with = $p)] pub a: u8, "
             "#[darling(with = $p, multiple)] pub b: crate::ustd::vec::Vec<u8> } } } mk!(R__, conv);" % META),
            ("mr-callables", "FromMeta",
             "fn dflt() -> u8 { 7 } fn twice(x: u8) -> u8 { x.wrapping_mul(2) } fn chk(x: u8) -> ::darling::Result<u8> { ::darling::export::Ok(x) } "
             "macro_rules! mk { ($n:ident, $d:path, $m:path, $a:path) => { #[derive(::darling::FromMeta)] pub struct $n { #[darling(default = $d)] pub a: u8, "
             "#[darling(map = $m)] pub b: u8, #[darling(and_then = $a)] pub c: u8 } } } mk!(R__, dflt, twice, chk);"),
            ("mr-field-names", "FromMeta",
             "macro_rules! mk { ($n:ident, $($f:ident : $t:ty),*) => { #[derive(::darling::FromMeta)] pub struct $n { $(pub $f: $t),* } } } mk!(R__, items: u8, errors: bool, inner: i64);"),
            ("mr-enum", "FromMeta",
             "macro_rules! mk { ($n:ident, $t:ident, $($v:ident),*) => { #[derive(::darling::FromMeta)] pub enum $n { $($v),*, Holds($t), Body { a: $t } } } } mk!(R__, u8, Alpha, Beta);"),
            ("mr-attrs-with", "FromDeriveInput",
             "fn fa(a: %s) -> ::darling::Result<usize> { ::darling::export::Ok(a.len()) } "
             "macro_rules! mk { ($n:ident, $p:path, $t:ident) => { #[derive(::darling::FromDeriveInput)] #[darling(attributes(u_attr), forward_attrs)] "
             "pub struct $n { #[darling(with = $p)] pub attrs: usize, pub a: $t } } } mk!(R__, fa, u8);" % ATTRS),
            ("mr-field-recv", "FromField",
             "macro_rules! mk { ($n:ident, $t:ident) => { #[derive(::darling::FromField)] #[darling(attributes(u_attr))] "
             "pub struct $n { pub ident: %s, pub a: $t } } } mk!(R__, bool);" % (OPT % "::darling::export::syn::Ident")),
        ]
        for feat, trait, body in decls:
            self.add(trait, body, 0, {feat, "macro_rules"}, False)
        # accepted declarations whose emitted code takes a path of its own
        more = [
            ("enum-container-default", "FromMeta",
             "impl crate::ustd::default::Default for R__ { fn default() -> Self { R__::B } } "
             "#[derive(::darling::FromMeta)] #[darling(default)] pub enum R__ { A { x: u8, y: %s }, B, C(u8) }" % S),
            ("enum-container-default-explicit", "FromMeta",
             "fn mk() -> R__ { R__::B } #[derive(::darling::FromMeta)] #[darling(default = mk)] pub enum R__ { A { #[darling(default)] x: u8 }, B }"),
            ("attributes-ident-field", "FromAttributes",
             "#[derive(::darling::FromAttributes)] #[darling(attributes(u_attr))] pub struct R__ { pub ident: %s, pub vis: u8 }" % S),
        ]
        for feat, trait, body in more:
            self.add(trait, body, 0, {feat}, False)

    def generate(self, n):
        rng = self.rng
        plan = []
        for i in range(n):
            r = rng.random()
            plan.append("struct" if r < 0.4 else "enum" if r < 0.6 else rng.choice(["FromDeriveInput", "FromField", "FromVariant", "FromTypeParam", "FromAttributes"]))
        # the first receivers are plain (they become nested types of later ones)
        for i, kind in enumerate(plan):
            if i == 6:
                self.gen_macro_rules()
            shadow = 0 if i < 6 else rng.randrange(len(SHADOWS))
            if kind == "struct" or i < 6:
                self.gen_struct_meta(shadow)
            elif kind == "enum":
                self.gen_enum_meta(shadow)
            else:
                self.gen_element(shadow, kind)
        return self.recvs


def render(recvs):
    lines = ["// @generated by gen/c20gen.py - one receiver module per line",
             "// the receivers spell std through this alias, so that every `::`-rooted path in emitted code is darling's own",
             "pub use ::std as ustd;"]
    first = len(lines) + 1
    for r in recvs:
        lines.append(r["src"])
    return "\n".join(lines) + "\n", first


NEGATIVES = {
    "neg1": "#[cfg(feature = \"neg1\")] pub mod neg1 { #[derive(::darling::FromMeta)] pub struct N { #[darling(with = |m| { let _ = &__errors; <u8 as ::darling::FromMeta>::from_meta(m) })] pub a: u8 } }",
    "neg2": "#[cfg(feature = \"neg2\")] pub mod neg2 { #[derive(::darling::FromMeta)] #[darling(from_word = || { let _ = &__items; ::darling::export::Err(::darling::Error::custom(\"w\")) })] pub struct N { pub a: u8 } }",
    "neg3": "#[cfg(feature = \"neg3\")] pub mod neg3 { #[derive(::darling::FromMeta)] pub struct N { #[darling(with = |m| { a.0 = true; <u8 as ::darling::FromMeta>::from_meta(m) })] pub a: u8 } }",
}
