"""Generator of receiver declarations (DeriveInput source text) for the derive-time properties C06 / C10 / C19b / C20."""
TRAITS = ["FromMeta", "FromDeriveInput", "FromField", "FromVariant", "FromTypeParam", "FromAttributes"]
CASE_RULES = ["lowercase", "PascalCase", "camelCase", "snake_case", "SCREAMING_SNAKE_CASE", "kebab-case"]
FIELD_TYPES = ["u8", "String", "bool", "Option<u8>", "Vec<String>", "T", "Vec<T>", "Option<U>", "std::collections::HashMap<String, T>",
               "<T as Tr>::X", "&'a str", "Box<dyn Fn(U) -> T>", "[T; 2]", "(T, u8)", "a::T", "syn::Ident", "darling::util::Flag",
               # bound syntax beyond traits and lifetimes (accepted by syn wherever a bound list is)
               "fn(impl Sized + use<T>)", "Box<dyn Tr + use<'a, T>>", "fn(impl Sized + use<>) -> u8"]
MAGIC = {"FromMeta": [], "FromDeriveInput": ["ident", "attrs", "vis", "generics", "data"],
         "FromField": ["ident", "attrs", "vis", "ty"], "FromVariant": ["ident", "attrs", "discriminant", "fields"],
         "FromTypeParam": ["ident", "attrs", "bounds", "default"], "FromAttributes": ["attrs"]}

# ---- well-formed options -------------------------------------------------------------------
FIELD_OPTS = {
    "rename": ['rename = "renamed"', 'rename = "r2"'],
    "default": ["default", 'default = "make_default"', "default = make_default", "default = a::b"],
    "with": ['with = "conv"', "with = conv", "with = |m| Ok(1)"],
    "skip": ["skip", "skip = true", "skip = false"],
    "map": ['map = "f"', "map = f", "map = |x| x"],
    "and_then": ['and_then = "g"', "and_then = g"],
    "multiple": ["multiple", "multiple = true", "multiple = false"],
    "flatten": ["flatten"],
}
CONTAINER_OPTS = {
    "default": ["default", 'default = "mk"', "default = mk"],
    "rename_all": ['rename_all = "%s"' % r for r in CASE_RULES],
    "map": ["map = f", 'map = "f"'],
    "and_then": ["and_then = Self::check", 'and_then = "g"'],
    "bound": ['bound = "T: Clone"', 'bound = "T: Tr, U: Clone"'],
    "allow_unknown_fields": ["allow_unknown_fields", "allow_unknown_fields = true", "allow_unknown_fields = false"],
}
FROM_META_OPTS = {"from_word": ["from_word = w", "from_word = || Ok(Default::default())"],
                  "from_none": ["from_none = n", "from_none = || None"]}
OUTER_OPTS = {"attributes": ["attributes(a)", "attributes(a, b::c)", "attributes()"],
              "forward_attrs": ["forward_attrs", "forward_attrs(doc, allow)", "forward_attrs()"],
              "from_ident": ["from_ident"]}
SUPPORTS_DI = ["supports(any)", "supports(struct_named)", "supports(struct_any, enum_unit)", "supports(enum_newtype, enum_tuple)",
               "supports()"]
SUPPORTS_V = ["supports(any)", "supports(named, unit)", "supports(newtype)", "supports()"]
VARIANT_OPTS = {"rename": ['rename = "vr"'], "skip": ["skip", "skip = true", "skip = false"],
                "word": ["word", "word = true", "word = false"]}

# ---- malformed material ----------------------------------------------------------------------
BAD_VALUES = ["rename = 1", "rename", "rename(x)", "default = 1", "default(x)", "default = a + b", "with = 1", "with", 'with = "1 +"',
              "skip = 1", 'skip = "yes"', "skip(x)", "multiple = 2", "flatten = true", "flatten(x)", 'map = 1', "and_then", 'rename_all = "bogus"',
              "rename_all", "rename_all = 1", 'bound = "T:::"', "bound = 1", "allow_unknown_fields = 1", "attributes = 1", "attributes(1)",
              "attributes(a = 1)", "forward_attrs = 1", "forward_attrs(1)", "supports(bogus)", "supports(struct_struct_named)",
              "supports(1)", "supports = 1", "supports(any::x)", "supports(struct_named::bogus)", "supports(::any)", "supports(named::x)",
              "supports(struct_bogus, struct_named, enum_bogus)", "supports(bogus1, named, bogus2)", "supports(1, any::x, enum_bogus)", "from_word", "from_word = 1", "from_none = 1", "word = 1", "word(x)",
              # every option written as an EMPTY list
              "flatten()", "skip()", "multiple()", "default()", "rename()", "with()", "map()", "and_then()", "word()",
              "allow_unknown_fields()", "rename_all()", "from_ident()", "bound()", "from_word()", "from_none()"]
UNKNOWN = ["bogus", "bogus = 1", "renme = \"x\"", "a::b", "defualt", "skip_all(x)"]
LITERAL_ITEMS = ['"lit"', "1", "true", "'c'"]
RAW_ATTRS = ["#[darling]", '#[darling = "x"]', "#[darling(a b)]", "#[darling(,)]", "#[darling(=)]", "#[darling(a = )]", "#[darling{a, b}]",
             "#[darling[a]]", "#[darling(a, , b)]", "#[darling(@)]", "#[darling(a(b c))]", "#[darling()]", "#[darling(#[x])]",
             "#[darling(a; b)]", "#[darling::x(a)]", "#[::darling(skip)]", "#[darling(r#type)]", "#[darling(true)]", "#[darling(true = 1)]"]
OTHER_ATTRS = ["#[doc = \"d\"]", "/// doc", "#[allow(dead_code)]", "#[cfg(test)]", "#[serde(rename = \"x\")]", "#[other(a b c)]"]


def pick_items(rng, pool, n):
    names = rng.sample(sorted(pool), min(n, len(pool)))
    return [rng.choice(pool[k]) for k in names]


def attr_lines(rng, items, messy):
    """Split option items over 1-3 #[darling(..)] attributes, interleaved with unrelated attributes."""
    out = []
    if rng.random() < 0.3:
        out.append(rng.choice(OTHER_ATTRS))
    if items:
        k = rng.choice([1, 1, 1, 2, 3])
        cuts = sorted(rng.sample(range(1, len(items)), min(k - 1, max(0, len(items) - 1)))) if len(items) > 1 else []
        parts, prev = [], 0
        for c in cuts + [len(items)]:
            parts.append(items[prev:c])
            prev = c
        for p in parts:
            out.append("#[darling(%s%s)]" % (", ".join(p), "," if p and rng.random() < 0.15 else ""))
            if rng.random() < 0.15:
                out.append(rng.choice(OTHER_ATTRS))
    if messy and rng.random() < messy:
        out.insert(rng.randrange(len(out) + 1), rng.choice(RAW_ATTRS))
    return out


def gen_items(rng, pool, messy, extra_pools=()):
    full = dict(pool)
    for p in extra_pools:
        full.update(p)
    n = rng.choice([0, 0, 1, 1, 2, 3, 4])
    items = pick_items(rng, full, n)
    if messy:
        r = rng.random()
        if r < messy:
            items.insert(rng.randrange(len(items) + 1), rng.choice(BAD_VALUES))
        if rng.random() < messy / 2:
            items.insert(rng.randrange(len(items) + 1), rng.choice(UNKNOWN))
        if rng.random() < messy / 3:
            items.insert(rng.randrange(len(items) + 1), rng.choice(LITERAL_ITEMS))
        if rng.random() < messy / 2 and items:
            items.append(rng.choice(items))          # repetition
    rng.shuffle(items)
    return items


def gen_field(rng, trait, messy, named, idx, used):
    ty = rng.choice(FIELD_TYPES)
    magic = MAGIC[trait]
    if named:
        if magic and rng.random() < 0.25:
            cand = [m for m in magic if m not in used]
            name = rng.choice(cand) if cand else "f%d" % idx
        else:
            name = rng.choice(["f%d" % idx, "r#type", "field_name", "x", "default", "skip"]) if rng.random() < 0.3 else "f%d" % idx
        if name in used:
            name = "f%d" % idx
        used.add(name)
    items = gen_items(rng, FIELD_OPTS, messy)
    if named and name in ("attrs", "data") and rng.random() < 0.6:
        items = rng.choice([[], ["with = conv"], ['with = "a::conv"'], ["with = conv", "with = conv2"], ["bogus"], ["skip"]])
    attrs = attr_lines(rng, items, messy)
    vis = rng.choice(["", "", "pub ", "pub(crate) "])
    return "%s %s%s%s" % (" ".join(attrs), vis, (name + ": ") if named else "", ty)


def gen_fields(rng, trait, messy, allow_magic=True):
    style = rng.choice(["named", "named", "named", "unit", "newtype", "tuple", "empty_named", "empty_tuple"])
    used = set()
    if style == "unit":
        return "unit", ""
    if style == "empty_named":
        return "named", "{}"
    if style == "empty_tuple":
        return "tuple", "()"
    if style == "newtype":
        return "tuple", "(%s)" % gen_field(rng, trait, messy, False, 0, used)
    n = rng.choice([1, 2, 2, 3, 4]) if style == "named" else rng.choice([2, 3])
    fs = [gen_field(rng, trait if allow_magic else "FromMeta", messy, style == "named", i, used) for i in range(n)]
    return style, ("{ %s }" % ", ".join(fs) if style == "named" else "(%s)" % ", ".join(fs))


def gen_decl(rng, trait, messy=0.0, kind=None):
    """One declaration.  messy in [0,1]: probability mass of malformed material."""
    kind = kind or rng.choice(["struct"] * 6 + ["enum"] * 3 + ["union"])
    generics = rng.choice(["", "", "<T>", "<T, U>", "<'a, T: Clone, U>", "<T, const N: usize>", "<'a>"])
    where = " where T: Tr" if "T" in generics and rng.random() < 0.2 else ""
    extra = [FROM_META_OPTS] if trait == "FromMeta" else [OUTER_OPTS]
    items = gen_items(rng, CONTAINER_OPTS, messy, extra)
    if trait == "FromDeriveInput" and rng.random() < 0.4:
        items.append(rng.choice(SUPPORTS_DI))
    if trait == "FromVariant" and rng.random() < 0.4:
        items.append(rng.choice(SUPPORTS_V))
    if trait != "FromMeta" and not any(i.startswith("attributes") for i in items) and rng.random() < 0.8:
        items.append("attributes(a)")
    rng.shuffle(items)
    attrs = " ".join(attr_lines(rng, items, messy))
    if kind == "union":
        return "%s union R%s%s { a: u8, b: u16 }" % (attrs, generics, where)
    if kind == "struct":
        style, body = gen_fields(rng, trait, messy)
        if style == "named":
            return "%s struct R%s%s %s" % (attrs, generics, where, body)
        return "%s struct R%s%s%s;" % (attrs, generics, body, where)
    nv = rng.choice([0, 1, 2, 3, 4, 5])
    vs = []
    for i in range(nv):
        vitems = gen_items(rng, VARIANT_OPTS, messy)
        style, body = gen_fields(rng, trait, messy, allow_magic=False)
        disc = " = %d" % i if style == "unit" and rng.random() < 0.2 else ""
        vs.append("%s V%d%s%s" % (" ".join(attr_lines(rng, vitems, messy)), i, " " + body if body else "", disc))
    return "%s enum R%s%s { %s }" % (attrs, generics, where, ", ".join(vs))
