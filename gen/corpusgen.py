#!/usr/bin/env python3
"""Generates the receiver corpus shared by the run-time properties (C01-C03, C07-C09, C16, C17, C20):
  gen/corpus.json                      descriptions (rendered to Gallina per case)
  harness/vh-rt/src/corpus.rs          the same receivers as Rust: derives, Default, Dump, user functions, dispatcher
Both are committed; regenerate with `python3 gen/corpusgen.py [seed]`.  The thorough tier of C20 generates fresh crates."""
import json
import os
import random
import sys

ROOT = os.path.dirname(os.path.dirname(os.path.abspath(__file__)))
RULES = [None, "lowercase", "PascalCase", "camelCase", "snake_case", "SCREAMING_SNAKE_CASE", "kebab-case"]


# ---------------------------------------------------------------- ident_case (re-implemented; checked by the correspondence)
def snake_variant(v):
    out = ""
    for i, ch in enumerate(v):
        if i > 0 and ch.isupper():
            out += "_"
        out += ch.lower()
    return out


def apply_to_variant(rule, v):
    v = v[2:] if v.startswith("r#") else v
    if rule in (None, "PascalCase"):
        return v
    if rule == "lowercase":
        return v.lower()
    if rule == "camelCase":
        return v[:1].lower() + v[1:]
    if rule == "snake_case":
        return snake_variant(v)
    if rule == "SCREAMING_SNAKE_CASE":
        return snake_variant(v).upper()
    return snake_variant(v).replace("_", "-")


def pascal_field(f):
    out, cap = "", True
    for ch in f:
        if ch == "_":
            cap = True
        elif cap:
            out += ch.upper()
            cap = False
        else:
            out += ch
    return out


def apply_to_field(rule, f):
    f = f[2:] if f.startswith("r#") else f        # the Rust name of `r#type` is `type`
    if rule in (None, "lowercase", "snake_case"):
        return f
    if rule == "PascalCase":
        return pascal_field(f)
    if rule == "camelCase":
        p = pascal_field(f)
        return p[:1].lower() + p[1:]
    if rule == "SCREAMING_SNAKE_CASE":
        return f.upper()
    return f.replace("_", "-")


# ---------------------------------------------------------------- types
LEAVES = ["bool", "u8", "i64", "String", "char", "Flag", "HashMap<String,u8>", "HashMap<String,String>"]


def rust_ty(t):
    k = t["t"]
    if k == "leaf":
        return t["name"].replace("HashMap", "std::collections::HashMap").replace("Flag", "darling::util::Flag")
    if k == "opt":
        return "Option<%s>" % rust_ty(t["e"])
    if k == "box":
        return "Box<%s>" % rust_ty(t["e"])
    if k == "res":
        return "darling::Result<%s>" % rust_ty(t["e"])
    return t["name"]


def gen_ty(rng, recvs, depth_left, allow_enum=True):
    r = rng.random()
    if r < 0.55 or not recvs:
        return {"t": "leaf", "name": rng.choice(LEAVES)}
    if r < 0.68:
        return {"t": "opt", "e": gen_ty(rng, recvs, depth_left, allow_enum)}
    if r < 0.72:
        return {"t": "box", "e": gen_ty(rng, recvs, depth_left, allow_enum)}
    cands = [x for x in recvs if x["depth"] < depth_left and (allow_enum or x["kind"] != "enum") and x["trait"] == "FromMeta"]
    if not cands:
        return {"t": "leaf", "name": rng.choice(LEAVES)}
    x = rng.choice(cands)
    return {"t": "recv", "name": x["name"]}


def ty_depth(t, by_name):
    if t["t"] == "recv":
        return by_name[t["name"]]["depth"]
    if "e" in t:
        return ty_depth(t["e"], by_name)
    return 0


def has_default(t, by_name):
    """does the Rust type implement Default (needed for skip / #[darling(default)] / derive(Default) of the parent)"""
    if t["t"] == "leaf":
        return True
    if t["t"] == "opt":
        return True
    if t["t"] == "box":
        return has_default(t["e"], by_name)
    if t["t"] == "res":
        return False
    return by_name[t["name"]]["has_default"]


FIELD_WORDS = ["alpha", "beta", "gamma", "delta", "count", "name", "flag", "inner", "opts", "level", "size", "kind_of", "max_len", "is_on",
               "label", "mode", "extra_info", "path_to", "tag", "note"]
VARIANT_WORDS = ["Plain", "Fancy", "WithValue", "Nested", "Off", "OnDemand", "Mixed", "Alpha", "BetaGamma", "Zed"]


def gen_fields(rng, recvs, by_name, used_names, n, cdefault, in_variant=False, rule=None, allow_flatten=True):
    fields = []
    flatten_done = False
    words = [w for w in FIELD_WORDS if w not in used_names]
    rng.shuffle(words)
    for _ in range(n):
        if not words:
            break
        ident = words.pop()
        f = {"ident": ident, "rename": None, "default": None, "with": None, "post": None, "skip": False, "multiple": False,
             "flatten": False}
        r = rng.random()
        ty = gen_ty(rng, recvs, 2)
        if r < 0.08 and allow_flatten and not flatten_done and not in_variant:
            # flatten a struct receiver whose names do not clash with ours
            cands = [x for x in recvs if x["kind"] == "struct" and x["trait"] == "FromMeta" and x["depth"] < 2
                     and not (set(x["all_names"]) & (used_names | {apply_to_field(rule, w) for w in FIELD_WORDS}))]
            if cands:
                x = rng.choice(cands)
                ty = {"t": "recv", "name": x["name"]}
                f["flatten"] = True
                flatten_done = True
        elif r < 0.18:
            f["multiple"] = True
            ty = gen_ty(rng, recvs, 2)
        elif r < 0.26:
            f["skip"] = True
        if not f["flatten"] and not f["skip"]:
            if rng.random() < 0.2:
                f["rename"] = "r_" + ident if rng.random() < 0.7 else ident.upper()
            q = rng.random()
            leaf = ty["t"] == "leaf" and ty["name"]
            if q < 0.1 and leaf == "i64" and not f["multiple"]:
                f["with"] = rng.choice(["w_len", "w_len", "w_fail"])
            elif q < 0.2 and leaf == "String":
                f["post"] = rng.choice([[False, "m_bang"], [True, "a_nonempty"]])
            elif q < 0.25 and leaf == "bool":
                f["post"] = [False, "m_not"]
        if f["skip"] and not has_default(ty, by_name):
            ty = {"t": "leaf", "name": rng.choice(LEAVES)}
        # defaults
        d = rng.random()
        if not f["skip"]:
            if d < 0.18 and has_default(ty, by_name):
                f["default"] = ["trait"]
            elif d < 0.28 and ty["t"] == "leaf" and ty["name"] in ("i64", "String") and not f["multiple"]:
                f["default"] = ["explicit", "d_seven" if ty["name"] == "i64" else "d_hello"]
        f["ty"] = ty
        f["name"] = f["rename"] or apply_to_field(rule, ident)
        fields.append(f)
    return fields


def all_names_of(fields, by_name):
    out = []
    for f in fields:
        if f["flatten"]:
            out += by_name[f["ty"]["name"]]["all_names"]
        elif not f["skip"]:
            out.append(f["name"])
    return out


# ---------------------------------------------------------------- directed receivers (option interactions the random draw rarely hits)
def F(ident, ty, **kw):
    f = {"ident": ident, "rename": None, "default": None, "with": None, "post": None, "skip": False, "multiple": False, "flatten": False, "ty": ty}
    f.update(kw)
    return f


def L(name):
    return {"t": "leaf", "name": name}


def O(t):
    return {"t": "opt", "e": t}


def Rv(name):
    return {"t": "recv", "name": name}


def directed(recvs, by_name, k):
    def add_struct(fields, rule=None, cdefault=None, auk=False, post=None, from_word=False, from_none=False):
        nonlocal k
        name = "R%d" % k
        k += 1
        c = {"rename_all": rule, "default": None, "post": post, "auk": auk, "from_word": None, "from_none": None}
        for f in fields:
            f["name"] = f["rename"] or apply_to_field(rule, f["ident"])
        x = {"name": name, "kind": "struct", "trait": "FromMeta", "cinfo": c, "fields": fields}
        x["has_default"] = all(has_default(f["ty"], by_name) or f["multiple"] for f in fields)
        if cdefault == "trait":
            c["default"] = ["trait"]
        elif cdefault == "explicit":
            c["default"] = ["explicit", "d_" + name]
        if from_word:
            c["from_word"] = "fw_" + name
        if from_none:
            c["from_none"] = "fn_" + name
        x["all_names"] = all_names_of(fields, by_name)
        x["depth"] = 1 + max([ty_depth(f["ty"], by_name) for f in fields] + [0])
        recvs.append(x)
        by_name[name] = x
        return name

    def add_enum(variants, rule=None, auk=False):
        nonlocal k
        name = "R%d" % k
        k += 1
        c = {"rename_all": rule, "default": None, "post": None, "auk": auk, "from_word": None, "from_none": None}
        erule = rule if rule is not None else "snake_case"
        for v in variants:
            v.setdefault("rename", None)
            v.setdefault("skip", False)
            v.setdefault("word", False)
            v.setdefault("fields", [])
            v["name"] = v["rename"] or apply_to_variant(erule, v["ident"])
            for f in v["fields"]:
                f["name"] = f["rename"] or (f["ident"] if v["style"] == "newtype" else apply_to_field(rule, f["ident"]))
        x = {"name": name, "kind": "enum", "trait": "FromMeta", "cinfo": c, "variants": variants,
             "has_default": any(v["style"] == "unit" for v in variants), "all_names": [],
             "depth": 1 + max([ty_depth(f["ty"], by_name) for v in variants for f in v["fields"]] + [0])}
        recvs.append(x)
        by_name[name] = x
        return name

    # skipped fields under every kind of container default (the skipped field takes the container default's value)
    for cd in ("explicit", "trait", "explicit"):
        add_struct([F("hidden", L("i64"), skip=True), F("secret", L("String"), skip=True), F("marker", O(L("u8")), skip=True),
                    F("name", L("String")), F("count", O(L("i64"))), F("items", L("u8"), multiple=True)], cdefault=cd)
    add_struct([F("hidden", L("u8"), skip=True, default=["trait"]), F("shown", L("char")), F("list", L("i64"), multiple=True),
                F("word", L("String"), default=["explicit", "d_hello"])], cdefault="explicit", rule="SCREAMING_SNAKE_CASE")
    # a flatten member with nested receivers, enclosed by receivers whose own names resemble the deep ones (chain of depth 3)
    deep = add_struct([F("size", L("u8")), F("depth", O(L("u8"))), F("shade", O(L("String")))])
    mode = add_enum([{"ident": "Wide", "style": "unit"}, {"ident": "Narrow", "style": "unit", "skip": True},
                     {"ident": "Sized", "style": "newtype", "fields": [F("0", Rv(deep))]},
                     {"ident": "Custom", "style": "struct", "fields": [F("width", L("u8")), F("heigth", O(L("u8")))]}])
    flat = add_struct([F("deep", O(Rv(deep))), F("label", O(L("String"))), F("mode", O(Rv(mode))), F("parts", Rv(deep), multiple=True)])
    parent = add_struct([F("width", O(L("u8"))), F("height", O(L("u8"))), F("sizes", O(L("u8"))), F("labels", O(L("String"))),
                         F("inner", Rv(flat), flatten=True)])
    grand = add_struct([F("widths", O(L("u8"))), F("depths", O(L("u8"))), F("shades", O(L("u8"))), F("modes", O(L("bool"))),
                        F("base", Rv(parent), flatten=True)])
    add_struct([F("outer_size", O(L("u8"))), F("deeper", O(L("u8"))), F("all", Rv(grand), flatten=True)], auk=False)
    # the same flatten member under allow_unknown_fields and under a case rule
    add_struct([F("width", O(L("u8"))), F("shade_of", O(L("u8"))), F("inner", Rv(flat), flatten=True)], auk=True, rule="camelCase")
    # enums: struct variants with nested receivers, skipped variants of every style, word variant
    add_enum([{"ident": "Plain", "style": "unit", "word": True}, {"ident": "Hidden", "style": "unit", "skip": True},
              {"ident": "HiddenValue", "style": "newtype", "skip": True, "fields": [F("0", L("u8"))]},
              {"ident": "HiddenBody", "style": "struct", "skip": True, "fields": [F("a", L("u8"))]},
              {"ident": "Body", "style": "struct", "fields": [F("level", L("u8")), F("label", O(L("String"))), F("deep", O(Rv(deep))),
                                                               F("tags", L("String"), multiple=True)]},
              {"ident": "Boxed", "style": "newtype", "fields": [F("0", O(L("String")))]}], rule="kebab-case")
    add_enum([{"ident": "Alpha", "style": "unit", "rename": "beta"}, {"ident": "Beta", "style": "unit", "skip": True},
              {"ident": "Gamma", "style": "struct", "fields": [F("mode", Rv(mode)), F("n", L("i64"), default=["explicit", "d_seven"])]}], auk=True)
    # a variant that explicitly opts out of being the word variant; no from_word anywhere: the bare word must be rejected
    add_enum([{"ident": "Quiet", "style": "unit", "word_false": True}, {"ident": "Loud", "style": "unit"},
              {"ident": "Level", "style": "newtype", "fields": [F("0", L("u8"))]}])
    add_enum([{"ident": "Only", "style": "unit", "word_false": True}], rule="lowercase")
    # with / map / and_then next to multiple, rename and defaults
    add_struct([F("len_of", L("i64"), **{"with": "w_len"}), F("loud", L("String"), post=[False, "m_bang"], rename="LOUD"),
                F("checked", L("String"), post=[True, "a_nonempty"], default=["explicit", "d_hello"]),
                F("negated", L("bool"), post=[False, "m_not"], multiple=True), F("never", L("i64"), **{"with": "w_fail"}, default=["explicit", "d_seven"])],
               post=[True, "ca_ok"], cdefault="explicit")
    # pairwise coverage: every container option next to every field option and every field type, and every two field
    # options as siblings of one receiver (the random draw leaves about a fifth of these pairs out)
    def sink(with_flatten=True):
        fs = [F("renamed", L("u8"), rename="other_name"), F("dflt", L("bool"), default=["trait"]),
              F("preset", L("i64"), default=["explicit", "d_seven"]), F("measured", L("i64"), **{"with": "w_len"}),
              F("refused", L("i64"), **{"with": "w_fail"}), F("mapped", L("String"), post=[False, "m_bang"]),
              F("checked", L("String"), post=[True, "a_nonempty"]), F("unseen", L("char"), skip=True),
              F("many", L("u8"), multiple=True), F("boxed", {"t": "box", "e": L("u8")}), F("letter", L("char")),
              F("switch", L("Flag")), F("table", L("HashMap<String,u8>")), F("maybe", O(L("String"))), F("sub", Rv(deep))]
        if with_flatten:
            fs.append(F("rest", Rv(mode_holder), flatten=True))
        return fs
    mode_holder = add_struct([F("mode", O(Rv(mode))), F("tint", O(L("String")))])
    for kw in (dict(), dict(rule="kebab-case"), dict(rule="PascalCase"), dict(cdefault="trait"), dict(cdefault="explicit"),
               dict(post=[False, "cm_id"]), dict(post=[True, "ca_ok"]), dict(post=[True, "ca_fail"]), dict(auk=True),
               dict(from_word=True), dict(from_none=True), dict(from_word=True, from_none=True, cdefault="explicit", auk=True)):
        add_struct(sink(), **kw)
    # effective names that are path keywords (`#[my_macro(crate = "..")]` is a common idiom); syn accepts them as item names
    add_struct([F("krate", L("String"), rename="crate"), F("this", O(L("u8")), rename="self"), F("parent", O(L("u8")), rename="super"),
                F("own", L("u8"), rename="Self", multiple=True), F("plain", O(L("bool")))])
    add_enum([{"ident": "Krate", "style": "unit", "rename": "crate"}, {"ident": "Own", "style": "newtype", "rename": "self", "fields": [F("0", L("u8"))]},
              {"ident": "Upper", "style": "struct", "rename": "super", "fields": [F("n", L("u8"), rename="crate")]}])
    # a flatten member inside a struct VARIANT (the variant arm has its own code path for the flatten hand-off)
    add_enum([{"ident": "Wide", "style": "struct", "fields": [F("level", L("u8")), F("rest", Rv(mode_holder), flatten=True)]},
              {"ident": "Thin", "style": "struct", "fields": [F("note", O(L("String"))), F("more", Rv(deep), flatten=True)]},
              {"ident": "Off", "style": "unit"}])
    add_enum([{"ident": "Only", "style": "struct", "fields": [F("every", Rv(mode_holder), flatten=True)]}], auk=True, rule="SCREAMING_SNAKE_CASE")
    # two options on ONE field, every valid pair, at a struct level and inside a struct variant
    def pairs_fields():
        return [F("p01", L("i64"), default=["explicit", "d_list"], multiple=True),
                F("p02", L("String"), default=["explicit", "d_hello"], post=[False, "m_bang"]),
                F("p03", L("i64"), default=["explicit", "d_seven"], rename="p_three"),
                F("p04", L("i64"), default=["explicit", "d_seven"], skip=True),
                F("p05", L("i64"), default=["explicit", "d_seven"], **{"with": "w_len"}),
                F("p06", L("String"), default=["trait"], post=[True, "a_nonempty"]),
                F("p07", L("String"), default=["trait"], post=[False, "m_bang"]),
                F("p08", L("i64"), default=["trait"], **{"with": "w_len"}),
                F("p09", L("String"), multiple=True, post=[True, "a_nonempty"]),
                F("p10", L("u8"), multiple=True, skip=True),
                F("p11", L("i64"), multiple=True, **{"with": "w_len"}),
                F("p12", L("String"), post=[True, "a_nonempty"], rename="p_twelve"),
                F("p13", L("String"), post=[True, "a_nonempty"], skip=True),
                F("p14", L("i64"), post=[True, "a_small"], **{"with": "w_len"}),
                F("p15", L("bool"), post=[False, "m_not"], skip=True),
                F("p16", L("i64"), post=[False, "m_inc"], **{"with": "w_len"}),
                F("p17", L("u8"), rename="p_seventeen", skip=True),
                F("p18", L("i64"), rename="p_eighteen", **{"with": "w_len"}),
                F("p19", L("i64"), skip=True, **{"with": "w_fail"}),
                F("p20", L("String"), default=["explicit", "d_hello"], post=[True, "a_nonempty"]),
                F("p21", L("bool"), multiple=True, post=[False, "m_not"]),
                F("p22", L("String"), post=[False, "m_bang"], rename="p_twentytwo")]
    add_struct(pairs_fields() + [F("rest", Rv(mode_holder), flatten=True, post=[False, "cm_id"])])
    add_struct([F("solo", O(L("u8"))), F("rest", Rv(mode_holder), flatten=True, post=[True, "ca_ok"], default=["trait"])])
    add_struct([F("solo", O(L("u8"))), F("rest", Rv(deep), flatten=True, default=["trait"], post=[True, "ca_fail"])])
    add_enum([{"ident": "Pairs", "style": "struct", "fields": pairs_fields()},
              {"ident": "Flat", "style": "struct", "fields": [F("solo", O(L("u8"))), F("rest", Rv(mode_holder), flatten=True, default=["trait"], post=[False, "cm_id"])]},
              {"ident": "Flat2", "style": "struct", "fields": [F("rest", Rv(deep), flatten=True, default=["trait"], post=[True, "ca_fail"])]}])
    # a flatten member that is an ENUM: it takes exactly one of the unclaimed items (none: too few; more: too many, at the first
    # surplus item), in a struct, under allow_unknown_fields-free and defaulted holders, and inside a struct variant
    add_struct([F("width", O(L("u8"))), F("label", O(L("String"))), F("mode", Rv(mode), flatten=True)])
    add_struct([F("width", L("u8")), F("mode", Rv(mode), flatten=True, default=["trait"])], rule="kebab-case")
    add_enum([{"ident": "Plain", "style": "unit"},
              {"ident": "Moded", "style": "struct", "fields": [F("level", O(L("u8"))), F("mode", Rv(mode), flatten=True)]}])
    # a variant that is both skipped and marked `word`: the bare word must not produce it
    add_enum([{"ident": "Gone", "style": "unit", "skip": True, "word": True}, {"ident": "Here", "style": "unit"},
              {"ident": "Held", "style": "newtype", "fields": [F("0", L("u8"))]}])
    add_enum([{"ident": "Gone", "style": "unit", "skip": True, "word": True}], rule="lowercase")
    # raw identifiers: the effective name is the Rust name without `r#`
    add_struct([F("r#type", L("String")), F("r#match", O(L("u8"))), F("plain", O(L("bool")))])
    add_struct([F("r#type", L("String")), F("r#fn", L("u8"), multiple=True)], rule="SCREAMING_SNAKE_CASE")
    add_enum([{"ident": "r#type", "style": "unit"}, {"ident": "r#Loop", "style": "newtype", "fields": [F("0", L("u8"))]},
              {"ident": "Body", "style": "struct", "fields": [F("r#in", L("u8"))]}])
    # unit and newtype receivers that declare their own value-for-absent, and a holder that leaves them out
    def add_special(kind, inner=None):
        nonlocal k
        name = "R%d" % k
        k += 1
        x = {"name": name, "kind": kind, "trait": "FromMeta", "has_default": True, "all_names": [], "depth": 1,
             "cinfo": {"rename_all": None, "default": None, "post": None, "auk": False, "from_word": None, "from_none": "fn_" + name}}
        if inner is not None:
            x["inner"] = inner
        recvs.append(x)
        by_name[name] = x
        return name
    absent_unit = add_special("unit")
    absent_newtype = add_special("newtype", L("u8"))
    add_struct([F("w", Rv(absent_newtype)), F("u", Rv(absent_unit)), F("n", O(L("u8"))), F("tag", L("String"))])
    # newtype receivers under every container-level post-transform (the generated from_meta of a newtype has its own shape)
    for post in (None, [False, "cm_id"], [True, "ca_ok"], [True, "ca_fail"]):
        for inner in (L("u8"), O(L("String")), Rv(deep)):
            nonlocal_k = len(recvs)
            name = "R%d" % k
            k += 1
            x = {"name": name, "kind": "newtype", "trait": "FromMeta", "inner": inner, "has_default": True, "all_names": [],
                 "depth": 1 + ty_depth(inner, by_name),
                 "cinfo": {"rename_all": None, "default": None, "post": post, "auk": False, "from_word": None, "from_none": None}}
            recvs.append(x)
            by_name[name] = x
    # a custom converter on a field whose TYPE has a value-for-absent: absent, the field holds that value (no default declared)
    add_struct([F("opt_len", O(L("i64")), **{"with": "w_opt_len"}), F("label", L("String")), F("other", O(L("u8")))])
    add_enum([{"ident": "Plain", "style": "unit"},
              {"ident": "Sized", "style": "struct", "fields": [F("opt_len", O(L("i64")), **{"with": "w_opt_len"}), F("n", O(L("u8")))]}])
    # a flatten member that is a derived NEWTYPE around a struct (resp. an enum): the newtype forwards the list it is handed
    def add_plain_newtype(inner):
        nonlocal k
        name = "R%d" % k
        k += 1
        x = {"name": name, "kind": "newtype", "trait": "FromMeta", "inner": inner, "has_default": True, "all_names": [],
             "depth": 1 + ty_depth(inner, by_name),
             "cinfo": {"rename_all": None, "default": None, "post": None, "auk": False, "from_word": None, "from_none": None}}
        recvs.append(x)
        by_name[name] = x
        return name
    add_struct([F("width", O(L("u8"))), F("rest", Rv(add_plain_newtype(Rv(deep))), flatten=True)])
    add_struct([F("label", O(L("String"))), F("mode", Rv(add_plain_newtype(Rv(mode))), flatten=True)], rule="kebab-case")
    add_enum([{"ident": "Sink", "style": "struct", "fields": sink(False)}, {"ident": "Drain", "style": "unit"}], rule="camelCase")
    add_enum([{"ident": "Sink", "style": "struct", "fields": sink(False)}, {"ident": "Other", "style": "struct", "fields": sink(False), "skip": True}],
             auk=True)
    return k


def gen_corpus(seed, n_structs=110, n_enums=40):
    rng = random.Random(seed)
    recvs, by_name = [], {}
    k = 0
    plan = ["struct"] * 25 + ["enum"] * 10
    while len(plan) < n_structs + n_enums:
        plan.append("struct" if rng.random() < n_structs / (n_structs + n_enums) else "enum")
    for kind in plan:
        name = "R%d" % k
        k += 1
        rule = rng.choice(RULES) if rng.random() < 0.5 else None
        c = {"rename_all": rule, "default": None, "post": None, "auk": rng.random() < 0.15, "from_word": None, "from_none": None}
        x = {"name": name, "kind": kind, "trait": "FromMeta", "cinfo": c}
        if kind == "struct":
            style = rng.choice(["named"] * 10 + ["unit", "newtype"])
            if style == "named":
                dr = rng.random()
                want_cdefault = dr < 0.25
                fields = gen_fields(rng, recvs, by_name, set(), rng.choice([0, 1, 2, 2, 3, 3, 4, 5]), want_cdefault, rule=rule)
                x["fields"] = fields
                all_def = all(has_default(f["ty"], by_name) or f["multiple"] for f in fields)
                x["has_default"] = all_def
                if want_cdefault and all_def:
                    c["default"] = ["trait"] if rng.random() < 0.6 else ["explicit", "d_" + name]
                pr = rng.random()
                if pr < 0.08:
                    c["post"] = [False, "cm_id"]
                elif pr < 0.16:
                    c["post"] = [True, rng.choice(["ca_ok", "ca_ok", "ca_fail"])]
                if all_def and rng.random() < 0.12:
                    c["from_word"] = "fw_" + name
                if all_def and rng.random() < 0.12:
                    c["from_none"] = "fn_" + name
                x["all_names"] = all_names_of(fields, by_name)
                x["depth"] = 1 + max([ty_depth(f["ty"], by_name) for f in fields] + [0])
            elif style == "unit":
                x["kind"] = "unit"
                x["has_default"] = True
                x["all_names"] = []
                x["depth"] = 1
                x["cinfo"]["auk"] = False
            else:
                x["kind"] = "newtype"
                inner = gen_ty(rng, recvs, 2)
                x["inner"] = inner
                x["has_default"] = has_default(inner, by_name)
                x["all_names"] = []
                x["depth"] = 1 + ty_depth(inner, by_name)
                x["cinfo"]["auk"] = False
                if rng.random() < 0.2:
                    c["post"] = [False, "cm_id"]
        else:
            nv = rng.choice([1, 2, 3, 3, 4, 5])
            words = list(VARIANT_WORDS)
            rng.shuffle(words)
            variants = []
            erule = rule if rule is not None else "snake_case"
            for _ in range(nv):
                vid = words.pop()
                v = {"ident": vid, "rename": None, "skip": rng.random() < 0.15, "word": False,
                     "style": rng.choice(["unit", "unit", "newtype", "struct"]), "fields": []}
                if rng.random() < 0.2:
                    v["rename"] = "v_" + vid.lower()
                v["name"] = v["rename"] or apply_to_variant(erule, vid)
                if v["style"] == "newtype":
                    v["fields"] = [{"ident": "0", "name": "0", "rename": None, "default": None, "with": None, "post": None, "skip": False,
                                    "multiple": False, "flatten": False, "ty": gen_ty(rng, recvs, 2)}]
                elif v["style"] == "struct":
                    # enum-level rename_all also renames struct-variant fields (apply_to_field)
                    v["fields"] = gen_fields(rng, recvs, by_name, set(), rng.choice([0, 1, 2, 3]), False, in_variant=True, rule=rule,
                                             allow_flatten=False)
                    for f in v["fields"]:
                        if f["default"] and f["default"][0] == "trait" and not has_default(f["ty"], by_name):
                            f["default"] = None
                variants.append(v)
            units = [v for v in variants if v["style"] == "unit" and not v["skip"]]
            if units and rng.random() < 0.3:
                rng.choice(units)["word"] = True
            elif rng.random() < 0.15:
                c["from_word"] = "fw_" + name
            if rng.random() < 0.15:
                c["from_none"] = "fn_" + name
            x["variants"] = variants
            x["has_default"] = any(v["style"] == "unit" for v in variants)
            x["all_names"] = []
            x["depth"] = 1 + max([ty_depth(f["ty"], by_name) for v in variants for f in v["fields"]] + [0])
            x["cinfo"]["auk"] = rng.random() < 0.15
        if x["depth"] > 3:
            k -= 1
            continue
        recvs.append(x)
        by_name[name] = x
    directed(recvs, by_name, k)
    return recvs


# ---------------------------------------------------------------- Rust rendering
def darling_attr(items):
    return "#[darling(%s)] " % ", ".join(items) if items else ""


def field_attr(f):
    it = []
    if f["rename"]:
        it.append('rename = "%s"' % f["rename"])
    if f["default"]:
        it.append("default" if f["default"][0] == "trait" else "default = %s" % f["default"][1])
    if f["with"]:
        it.append("with = %s" % f["with"])
    if f["post"]:
        it.append("%s = %s" % ("and_then" if f["post"][0] else "map", f["post"][1]))
    if f["skip"]:
        it.append("skip")
    if f["multiple"]:
        it.append("multiple")
    if f["flatten"]:
        it.append("flatten")
    return darling_attr(it)


def field_rust_ty(f):
    t = rust_ty(f["ty"])
    return "Vec<%s>" % t if f["multiple"] else t


def container_attr(x, extra=()):
    c = x["cinfo"]
    it = list(extra)
    if c["rename_all"]:
        it.append('rename_all = "%s"' % c["rename_all"])
    if c["default"]:
        it.append("default" if c["default"][0] == "trait" else "default = %s" % c["default"][1])
    if c["post"]:
        it.append("%s = %s" % ("and_then" if c["post"][0] else "map", c["post"][1]))
    if c["auk"]:
        it.append("allow_unknown_fields")
    if c["from_word"]:
        it.append("from_word = %s" % c["from_word"])
    if c["from_none"]:
        it.append("from_none = %s" % c["from_none"])
    return darling_attr(it)


def dump_fields(fields, access):
    return ", ".join('json!(["%s", %s.dump()])' % (f["ident"], access(f)) for f in fields)


def const_value(rng, x, by_name):
    """a specific non-default value of receiver x (as Rust expr and as value JSON), used for default= / from_word / from_none fns"""
    rs, vs = [], []

    def leaf_const(name):
        if name == "i64":
            n = rng.randint(1, 90)
            return str(n), {"t": "int", "v": str(n)}
        if name == "u8":
            n = rng.randint(1, 200)
            return str(n), {"t": "int", "v": str(n)}
        if name == "String":
            sv = rng.choice(["const", "preset", "zz"])
            return '"%s".to_string()' % sv, {"t": "str", "v": sv}
        if name == "bool":
            return "true", {"t": "bool", "v": True}
        if name == "char":
            ch = rng.choice("qxz")
            return "'%s'" % ch, {"t": "char", "v": ord(ch)}
        return None

    for f in x["fields"]:
        t = f["ty"]
        lc = leaf_const(t["name"]) if t["t"] == "leaf" else None
        oc = leaf_const(t["e"]["name"]) if t["t"] == "opt" and t["e"]["t"] == "leaf" else None
        if f["multiple"]:
            if lc and rng.random() < 0.6:
                lc2 = leaf_const(t["name"])
                rs.append("%s: vec![%s, %s]" % (f["ident"], lc[0], lc2[0]))
                vs.append([f["ident"], {"t": "list", "vs": [lc[1], lc2[1]]}])
            else:
                rs.append("%s: vec![]" % f["ident"])
                vs.append([f["ident"], {"t": "list", "vs": []}])
        elif lc:
            rs.append("%s: %s" % (f["ident"], lc[0]))
            vs.append([f["ident"], lc[1]])
        elif oc:
            rs.append("%s: Some(%s)" % (f["ident"], oc[0]))
            vs.append([f["ident"], {"t": "some", "v": oc[1]}])
        else:
            rs.append("%s: Default::default()" % f["ident"])
            vs.append([f["ident"], None])      # = default_of the field type (filled in by the model)
    return "%s { %s }" % (x["name"], ", ".join(rs)), vs


def render_rust(recvs, seed):
    by_name = {x["name"]: x for x in recvs}
    rng = random.Random(seed + 1)
    out = ["// @generated by gen/corpusgen.py (seed %d) - the receiver corpus" % seed,
           "#![allow(dead_code, unused_imports, clippy::all)]",
           "use crate::dump::Dump;", "use darling::{FromMeta, FromDeriveInput, FromField, FromVariant, FromTypeParam, FromAttributes};",
           "use serde_json::{json, Value};", "",
           "// ---- the fixed library of user callables (mirrored in Run/UserLib.v)",
           "pub fn w_len(m: &syn::Meta) -> darling::Result<i64> { String::from_meta(m).map(|s| s.len() as i64) }",
           "pub fn w_fail(_m: &syn::Meta) -> darling::Result<i64> { Err(darling::Error::custom(\"w_fail\")) }",
           "pub fn w_opt_len(m: &syn::Meta) -> darling::Result<Option<i64>> { String::from_meta(m).map(|s| Some(s.len() as i64)) }",
           "pub fn m_bang(s: String) -> String { s + \"!\" }", "pub fn m_not(b: bool) -> bool { !b }",
           "pub fn a_nonempty(s: String) -> darling::Result<String> { if s.is_empty() { Err(darling::Error::custom(\"empty\")) } else { Ok(s) } }",
           "pub fn d_seven() -> i64 { 7 }", "pub fn d_hello() -> String { \"hello\".to_string() }",
           "pub fn d_list() -> Vec<i64> { vec![7, 8] }", "pub fn m_inc(x: i64) -> i64 { x + 1 }",
           "pub fn a_small(x: i64) -> darling::Result<i64> { if x < 4 { Ok(x) } else { Err(darling::Error::custom(\"big\")) } }",
           "pub fn cm_id<T>(t: T) -> T { t }", "pub fn ca_ok<T>(t: T) -> darling::Result<T> { Ok(t) }",
           "pub fn ca_fail<T>(_t: T) -> darling::Result<T> { Err(darling::Error::custom(\"ca_fail\")) }", ""]
    consts = {}
    for x in recvs:
        n = x["name"]
        derives = ["Debug", "darling::%s" % x["trait"]]
        if x["has_default"] and x["kind"] != "enum":
            derives.append("Default")
        if x["kind"] == "struct":
            out.append("#[derive(%s)] %spub struct %s { %s }" % (", ".join(derives), container_attr(x, x.get("extra_attrs", ())), n,
                       ", ".join("%spub %s: %s" % (field_attr(f), f["ident"], field_rust_ty(f)) for f in x["fields"])))
            out.append("impl Dump for %s { fn dump(&self) -> Value { json!({\"t\": \"struct\", \"fs\": [%s]}) } }" % (
                n, dump_fields(x["fields"], lambda f: "self." + f["ident"])))
            c = x["cinfo"]
            for key, fn_name, sig, wrap in (("default", c["default"][1] if c["default"] and c["default"][0] == "explicit" else None, "-> %s" % n, "%s"),
                                            ("from_word", c["from_word"], "-> darling::Result<%s>" % n, "Ok(%s)"),
                                            ("from_none", c["from_none"], "-> Option<%s>" % n, "Some(%s)")):
                if fn_name:
                    expr, val = const_value(rng, x, by_name)
                    out.append("pub fn %s() %s { %s }" % (fn_name, sig, wrap % expr))
                    consts[fn_name] = {"recv": n, "fields": val, "wrap": key}
        elif x["kind"] == "unit":
            if x["cinfo"]["from_none"]:
                out.append("pub fn %s() -> Option<%s> { Some(%s) }" % (x["cinfo"]["from_none"], n, n))
                consts[x["cinfo"]["from_none"]] = {"recv": n, "fields": [], "wrap": "from_none"}
            out.append("#[derive(%s)] %spub struct %s;" % (", ".join(derives), container_attr(x), n))
            out.append("impl Dump for %s { fn dump(&self) -> Value { json!({\"t\": \"struct\", \"fs\": []}) } }" % n)
        elif x["kind"] == "newtype":
            if x["cinfo"]["from_none"]:
                out.append("pub fn %s() -> Option<%s> { Some(%s(5)) }" % (x["cinfo"]["from_none"], n, n))
                consts[x["cinfo"]["from_none"]] = {"recv": n, "fields": [["0", {"t": "int", "v": "5"}]], "wrap": "from_none"}
            out.append("#[derive(%s)] %spub struct %s(pub %s);" % (", ".join(derives), container_attr(x), n, rust_ty(x["inner"])))
            out.append("impl Dump for %s { fn dump(&self) -> Value { json!({\"t\": \"struct\", \"fs\": [json!([\"0\", self.0.dump()])]}) } }" % n)
        else:
            vs = []
            first_unit = True
            for v in x["variants"]:
                it = []
                if v["rename"]:
                    it.append('rename = "%s"' % v["rename"])
                if v["skip"]:
                    it.append("skip")
                if v["word"]:
                    it.append("word")
                if v.get("word_false"):
                    it.append("word = false")        # opting out explicitly must not declare a word variant
                dflt = ""
                if v["style"] == "unit" and first_unit:
                    dflt = "#[default] "
                    first_unit = False
                if v["style"] == "unit":
                    vs.append("%s%s%s" % (dflt, darling_attr(it), v["ident"]))
                elif v["style"] == "newtype":
                    vs.append("%s%s(%s)" % (darling_attr(it), v["ident"], rust_ty(v["fields"][0]["ty"])))
                else:
                    vs.append("%s%s { %s }" % (darling_attr(it), v["ident"],
                                               ", ".join("%s%s: %s" % (field_attr(f), f["ident"], field_rust_ty(f)) for f in v["fields"])))
            if x["has_default"]:
                derives.append("Default")
            out.append("#[derive(%s)] %spub enum %s { %s }" % (", ".join(derives), container_attr(x), n, ", ".join(vs)))
            arms = []
            for v in x["variants"]:
                if v["style"] == "unit":
                    arms.append('%s::%s => json!({"t": "variant", "name": "%s", "fs": []})' % (n, v["ident"], v["ident"]))
                elif v["style"] == "newtype":
                    arms.append('%s::%s(x) => json!({"t": "variant", "name": "%s", "fs": [json!(["0", x.dump()])]})' % (n, v["ident"], v["ident"]))
                else:
                    binds = ", ".join(f["ident"] for f in v["fields"])
                    arms.append('%s::%s { %s } => json!({"t": "variant", "name": "%s", "fs": [%s]})' % (
                        n, v["ident"], binds, v["ident"], dump_fields(v["fields"], lambda f: f["ident"])))
            out.append("impl Dump for %s { fn dump(&self) -> Value { match self { %s } } }" % (n, ", ".join(arms)))
            c = x["cinfo"]
            units = [v for v in x["variants"] if v["style"] == "unit"]
            for key, fn_name, sig, wrap in (("from_word", c["from_word"], "-> darling::Result<%s>" % n, "Ok(%s)"),
                                            ("from_none", c["from_none"], "-> Option<%s>" % n, "Some(%s)")):
                if fn_name:
                    if units:
                        u = units[-1]
                        out.append("pub fn %s() %s { %s }" % (fn_name, sig, wrap % ("%s::%s" % (n, u["ident"]))))
                        consts[fn_name] = {"recv": n, "variant": u["ident"], "wrap": key}
                    else:
                        out.append("pub fn %s() %s { %s }" % (fn_name, sig, "Err(darling::Error::custom(\"no unit\"))" if key == "from_word" else "None"))
                        consts[fn_name] = {"recv": n, "variant": None, "wrap": key}
    # dispatcher
    fm = [x["name"] for x in recvs if x["trait"] == "FromMeta"]
    out.append("\npub fn dispatch(name: &str, input: &crate::conv::Input) -> Option<Value> {")
    out.append("    match name {")
    for n in fm:
        out.append('        "%s" => Some(crate::conv::run_t::<%s>(input)),' % (n, n))
    out.append("        _ => None,\n    }\n}")
    return "\n".join(out) + "\n", consts


if __name__ == "__main__":
    seed = int(sys.argv[1]) if len(sys.argv) > 1 else 20260927
    recvs = gen_corpus(seed)
    rust, consts = render_rust(recvs, seed)
    open(os.path.join(ROOT, "harness/vh-rt/src/corpus.rs"), "w").write(rust)
    json.dump({"seed": seed, "receivers": recvs, "consts": consts}, open(os.path.join(ROOT, "gen/corpus.json"), "w"), indent=0)
    kinds = {}
    for x in recvs:
        kinds[x["kind"]] = kinds.get(x["kind"], 0) + 1
    print(len(recvs), "receivers", kinds, "max depth", max(x["depth"] for x in recvs))
