"""C05 — Accumulator: Ok iff nothing was recorded; nothing recorded is ever lost."""
import json
import vlib
import errgen
from vlib import capp, cN, clist, cstr, copt

OPS = ["push", "handle_ok", "handle_err", "handle_in_ok", "handle_in_err", "extend", "checkpoint",
       "finish", "finish_with", "into_inner", "drop", "drop_unwinding"]

HEADER = """From DarlingModel Require Import Base.Prelude Err.ErrTree Err.Builder Err.Accum Exec.ErrObs Exec.AccObs.
Local Open Scope string_scope."""


def total_bexpr(rng, depth):
    """Builder expressions that always evaluate (no empty bundle, no iterator probing)."""
    while True:
        b = errgen.gen_bexpr(rng, depth, max_arity=4, allow_empty=False)
        st = errgen.bexpr_stats(b)
        if "iter_nth" not in st["ops"]:
            return b


def gen_ops(rng, n):
    ops = []
    for _ in range(n):
        r = rng.random()
        if r < 0.55:
            t = rng.choice(OPS[:6])
        else:
            t = rng.choice(OPS)
        if t in ("push", "handle_err", "handle_in_err"):
            ops.append({"t": t, "b": total_bexpr(rng, rng.choice([0, 0, 1, 2, 3]))})
        elif t in ("handle_ok", "handle_in_ok", "finish_with"):
            ops.append({"t": t, "v": rng.choice([0, 1, 7, 42, 2 ** 32, 2 ** 63])})
        elif t == "extend":
            ops.append({"t": t, "bs": [total_bexpr(rng, rng.choice([0, 0, 1, 2])) for _ in range(rng.choice([0, 1, 2, 3, 5]))],
                        "via": rng.choice(["vec", "vec", "filter", "flat_map", "results", "error_iter", "chain"])})
        else:
            ops.append({"t": t})
    return ops


def corpus():
    L = lambda a: {"t": "leaf", "k": {"t": "custom", "a": a}}
    return [
        [],
        [{"t": "finish"}],
        [{"t": "finish_with", "v": 5}],
        [{"t": "drop"}],
        [{"t": "drop_unwinding"}],
        [{"t": "push", "b": L("foo!")}, {"t": "finish"}],
        [{"t": "push", "b": L("first")}, {"t": "push", "b": L("second")}, {"t": "drop"}],
        [{"t": "push", "b": L("first")}, {"t": "push", "b": L("second")}, {"t": "drop_unwinding"}],
        [{"t": "checkpoint"}, {"t": "drop"}],
        [{"t": "push", "b": L("foo!")}, {"t": "checkpoint"}, {"t": "finish"}],
        [{"t": "extend", "bs": []}, {"t": "finish_with", "v": 1}],
        [{"t": "extend", "bs": [L("a"), L("b"), L("c")]}, {"t": "into_inner"}, {"t": "finish"}],
        [{"t": "handle_err", "b": L("e")}, {"t": "handle_ok", "v": 3}, {"t": "handle_in_err", "b": L("f")}, {"t": "finish_with", "v": 9}],
        [{"t": "push", "b": {"t": "multiple", "bs": [L("a"), L("b")]}}, {"t": "finish"}],
        [{"t": "push", "b": {"t": "multiple", "bs": [L("a"), L("b")]}}, {"t": "push", "b": L("c")}, {"t": "checkpoint"}],
    ]


def coq_bop(o):
    t = o["t"]
    if t == "push":
        return capp("BPush", errgen.coq_bexpr(o["b"]))
    if t == "handle_ok":
        return capp("BHandleOk", cN(o["v"]))
    if t == "handle_err":
        return capp("BHandleErr", errgen.coq_bexpr(o["b"]))
    if t == "handle_in_ok":
        return capp("BHandleInOk", cN(o["v"]))
    if t == "handle_in_err":
        return capp("BHandleInErr", errgen.coq_bexpr(o["b"]))
    if t == "extend":
        return capp("BExtend", clist([errgen.coq_bexpr(b) for b in o["bs"]]))
    if t == "finish_with":
        return capp("BFinishWith", cN(o["v"]))
    return {"checkpoint": "BCheckpoint", "finish": "BFinish", "into_inner": "BIntoInner", "drop": "BDrop",
            "drop_unwinding": "BDropUnwinding"}[t]


def coq_oout(o):
    t = o["t"]
    if t == "unit":
        return "XUnit"
    if t == "value":
        return capp("XValue", copt(o["v"], cN))
    if t == "finished":
        return capp("XFinished", copt(o["v"], cN))
    if t == "failed":
        return capp("XFailed", errgen.coq_obs(o["e"]))
    if t == "vec":
        return capp("XVec", clist([errgen.coq_obs(e) for e in o["es"]]))
    if t == "fresh":
        return "XFresh"
    if t == "quiet":
        return "XQuiet"
    if t == "panicked":
        return capp("XPanicked", cstr(o["msg"]))
    return capp("XPanicked", cstr("<harness error>"))


def pairs_of(ops):
    ps = set()
    for o in ops:
        for b in ([o["b"]] if "b" in o else []) + o.get("bs", []):
            ps.update(map(tuple, errgen.sim_pairs(b)))
    return sorted(ps)


def run(tier, seed, replay=None):
    prop = "C05"
    R = vlib.Run(prop, tier, seed)
    R.proof_coverage(vlib.proof_step(prop))
    binary, log = vlib.build_harness()
    if binary is None:
        R.violation("harness-build", "harness does not build against /repo: " + log[-1500:],
                    {"failed": "cargo build vh-rt", "log": log[-4000:]}, found_input=False)
        return R.finish()
    n = 3000 if tier == "quick" else 60000
    if replay:
        hist = [json.load(open(replay))["case"]["ops"]]
    else:
        hist = corpus()
        while len(hist) < n:
            hist.append(gen_ops(R.rng, R.rng.choice([0, 1, 2, 3, 5, 8, 12, 20, 30])))
    cases = [{"id": i, "op": "acc_ops", "src": errgen.SPAN_SRC, "ops": h, "pairs": pairs_of(h)}
             for i, h in enumerate(hist)]
    results = vlib.run_harness(binary, cases)
    terms = []
    for c in cases:
        r = results.get(c["id"], {})
        if "trace" not in r:
            # crash (abort during unwinding) or harness error: an empty trace can never agree
            trace = [{"t": "panicked", "msg": "<process aborted or harness error: %s>" % json.dumps(r)[:200]}]
            sim = []
        else:
            trace, sim = r["trace"], r.get("sim", [])
        simt = clist(["(%s, %s, %s)" % (cstr(a), cstr(b), cN(bits)) for (a, b), bits in zip(c["pairs"], sim)])
        terms.append("{| a_sim := %s; a_ops := %s; a_trace := %s |}" % (
            simt, clist([coq_bop(o) for o in c["ops"]]), clist([coq_oout(o) for o in trace])))
    bad, errors = vlib.coq_eval(prop, HEADER, terms, "run05 %s")
    vlib.decide(R, terms, bad, errors,
                describe=lambda i: "history " + json.dumps(hist[i]),
                model_body="Eval vm_compute in (option_map (fun ops => (map oout_of (snd (run_ops ops)), map oout_of (spec_trace [] ops))) "
                           "(ops_of true (sim_of (a_sim c)) (a_ops c))).",
                key_fn=lambda i: "accumulator-history",
                size_fn=lambda i: len(hist[i]),
                header=HEADER, results=results, cases=cases,
                failed_holds="holds05 (Exec/AccObs.v): the abstract specification spec_trace of Err/Accum.v",
                failed_agree="correspondence agree05 (Exec/AccObs.v)")
    opcount = {}
    for h in hist:
        for o in h:
            opcount[o["t"]] = opcount.get(o["t"], 0) + 1
    distinct = len({json.dumps(h, sort_keys=True) for h in hist
                    if len(h) >= 3 and any(o["t"] in ("push", "handle_err", "handle_in_err", "extend") for o in h)
                    and any(o["t"] in OPS[6:] for o in h)})
    crashes = sum(1 for c in cases if "crash" in results.get(c["id"], {}))
    R.coverage.update({
        "evaluations": len(cases),
        "distinct_nontrivial": distinct,
        "rule": "random histories (length 0-30) over the twelve operations, errors built from random builder expressions; each "
                "run through the real Accumulator (every consuming call under catch_unwind; drop-during-unwind by panicking while "
                "the accumulator is held) and through run_ops / spec_trace inside Coq; non-trivial = >= 3 operations with at least "
                "one recording and one consuming operation; distinct by structural equality",
        "samples": [hist[i] for i in (5, 12, len(hist) // 2, len(hist) - 1) if i < len(hist)],
        "distribution": {"operations": opcount, "max_length": max(len(h) for h in hist),
                         "process_aborts_observed": crashes},
    })
    R.assumptions = ["std::thread::panicking() is an input bit of the model (OpDrop vs OpDropUnwinding)",
                     "Rust ownership makes 'use after finish' unrepresentable; a consumed accumulator is replaced by a fresh one"]
    return R.finish()
