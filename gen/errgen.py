"""Generator and renderers for error-builder expressions (Err/Builder.v `bexpr`), shared by
C04, the algebraic half of C03, and C17."""
from vlib import cstr, cN, cnat, clist, copt, cspan, cospan, capp

NAMES = ["a", "foo", "bar", "field", "my_field", "lorem", "ipsum", "x", "inner", "outer",
         "two words", "a/b", "", "`tick`", "café", "say \"hi\"", "x at y", "name[0]", "0"]
ALTS = ["foo", "fooo", "bar", "baz", "field", "fields", "my_field", "lorem", "ipsum", "dolor",
        "name", "names", "inner", "outer", "x", "foo_bar"]
MSGS = ["boom", "something went wrong", "expected `,`", "Multiple errors: (fake)", "x at y/z", "",
        "unterminated \"quote\"", "tab\there", "ümläut"]

LEAF_KINDS = ["custom", "duplicate_field", "missing_field", "unsupported_shape", "unknown_field",
              "unsupported_format", "unexpected_type", "unknown_value", "too_few_items", "too_many_items"]

NSPANS = 8
SPAN_SRC = " ".join("s%d" % i for i in range(NSPANS))


def span_of_index(i):
    # tokens "s0 s1 ..." on one line: token i occupies columns 3i .. 3i+2
    return [1, 3 * i, 1, 3 * i + 2]


def gen_kind(rng):
    t = rng.choice(LEAF_KINDS)
    if t in ("too_few_items", "too_many_items"):
        return {"t": t, "n": rng.choice([0, 1, 2, 3, 10, 255, 65536, 4294967296])}
    if t == "custom":
        return {"t": t, "a": rng.choice(MSGS)}
    if t == "unsupported_shape":
        return {"t": t, "a": rng.choice(["enum", "union", "unit", "tuple"]),
                "b": rng.choice([None, None, "struct", "enum with newtype variants"])}
    if t == "unknown_field":
        return {"t": t, "a": rng.choice(NAMES + ALTS)}
    return {"t": t, "a": rng.choice(NAMES)}


def gen_bexpr(rng, depth, max_arity=6, allow_empty=False):
    """Random builder expression: bundles of arity 0..max_arity (0 only when allow_empty), depth <= depth,
    all leaf kinds, every combinator."""
    if depth <= 0:
        r = rng.random()
        if r < 0.75:
            return {"t": "leaf", "k": gen_kind(rng)}
        if r < 0.9:
            return {"t": "unknown_alts", "name": rng.choice(ALTS + NAMES),
                    "alts": rng.sample(ALTS, rng.randint(0, 5))}
        return {"t": "from_syn", "s": rng.randrange(NSPANS), "msg": rng.choice(MSGS)}
    r = rng.random()
    sub = lambda: gen_bexpr(rng, depth - 1 - (rng.random() < 0.3), max_arity, allow_empty)
    if r < 0.20:
        return gen_bexpr(rng, 0)
    if r < 0.38:
        return {"t": "at", "l": rng.choice(NAMES), "b": sub()}
    if r < 0.52:
        return {"t": "with_span", "s": rng.randrange(NSPANS), "b": sub()}
    if r < 0.80:
        lo = 0 if (allow_empty and rng.random() < 0.1) else 1
        n = rng.choice([lo, 1, 2, 2, 2, 3, 3, 4, max_arity])
        return {"t": "multiple", "bs": [sub() for _ in range(n)]}
    if r < 0.87:
        return {"t": "flatten", "b": sub()}
    if r < 0.93:
        return {"t": "iter_nth", "n": rng.choice([0, 0, 1, 1, 2, 3, 7]), "b": sub()}
    if r < 0.96:
        return {"t": "clone", "b": sub()}
    return {"t": "add_alts", "alts": rng.sample(ALTS, rng.randint(0, 5)), "b": sub()}


def bexpr_stats(b, st=None, depth=0):
    st = st if st is not None else {"nodes": 0, "depth": 0, "ops": {}}
    st["nodes"] += 1
    st["depth"] = max(st["depth"], depth)
    st["ops"][b["t"]] = st["ops"].get(b["t"], 0) + 1
    for k in ("b",):
        if k in b:
            bexpr_stats(b[k], st, depth + 1)
    for x in b.get("bs", []):
        bexpr_stats(x, st, depth + 1)
    return st


def sim_pairs(b):
    """(unknown name, alternate) pairs whose similarity the model will ask for."""
    names, alts = set(), set()

    def walk(x):
        t = x["t"]
        if t == "leaf" and x["k"]["t"] == "unknown_field":
            names.add(x["k"]["a"])
        if t == "unknown_alts":
            names.add(x["name"])
            alts.update(x["alts"])
        if t == "add_alts":
            alts.update(x["alts"])
        if "b" in x:
            walk(x["b"])
        for y in x.get("bs", []):
            walk(y)

    walk(b)
    return sorted((n, a) for n in names for a in alts)


def coq_kind(k):
    t = k["t"]
    if t == "custom":
        return capp("KCustom", cstr(k["a"]))
    if t == "duplicate_field":
        return capp("KDuplicateField", cstr(k["a"]))
    if t == "missing_field":
        return capp("KMissingField", cstr(k["a"]))
    if t == "unsupported_shape":
        return capp("KUnsupportedShape", cstr(k["a"]), copt(k.get("b"), cstr))
    if t == "unknown_field":
        return capp("KUnknownField", cstr(k["a"]), "None")
    if t == "unsupported_format":
        return capp("KUnexpectedFormat", cstr(k["a"]))
    if t == "unexpected_type":
        return capp("KUnexpectedType", cstr(k["a"]))
    if t == "unknown_value":
        return capp("KUnknownValue", cstr(k["a"]))
    if t == "too_few_items":
        return capp("KTooFewItems", cN(k["n"]))
    if t == "too_many_items":
        return capp("KTooManyItems", cN(k["n"]))
    raise ValueError(t)


def coq_bexpr(b):
    t = b["t"]
    if t == "leaf":
        return capp("BLeaf", coq_kind(b["k"]))
    if t == "unknown_alts":
        return capp("BUnknownAlts", cstr(b["name"]), clist([cstr(a) for a in b["alts"]]))
    if t == "from_syn":
        return capp("BFromSyn", cspan(span_of_index(b["s"])), cstr(b["msg"]))
    if t == "at":
        return capp("BAt", cstr(b["l"]), coq_bexpr(b["b"]))
    if t == "with_span":
        return capp("BWithSpan", cspan(span_of_index(b["s"])), coq_bexpr(b["b"]))
    if t == "multiple":
        return capp("BMultiple", clist([coq_bexpr(x) for x in b["bs"]]))
    if t == "flatten":
        return capp("BFlatten", coq_bexpr(b["b"]))
    if t == "iter_nth":
        return capp("BIterNth", cnat(b["n"]), coq_bexpr(b["b"]))
    if t == "clone":
        return capp("BClone", coq_bexpr(b["b"]))
    if t == "add_alts":
        return capp("BAddAlts", clist([cstr(a) for a in b["alts"]]), coq_bexpr(b["b"]))
    raise ValueError(t)


def coq_obs(o):
    return capp("Obs", cN(o["len"]), cstr(o["disp"]), cstr(o["body"]), copt(o["locs"], cstr),
                cospan(o["span"]), clist([coq_obs(k) for k in o["kids"]]))


def coq_diag(d):
    return "(%s, %s)" % (cospan(d["span"]), cstr(d["msg"]))


def coq_outcome04(r):
    if "panic" in r:
        return capp("OPanic", cstr(r["panic"]))
    if r.get("absent"):
        return "OAbsent"
    return capp("OVal", coq_obs(r["val"]), coq_obs(r["flat"]), coq_obs(r["flat2"]),
                clist([coq_diag(d) for d in r["diags"]]), clist([coq_diag(d) for d in r["diags_ts"]]))


def coq_case04(case, result, sugg=True):
    sim = clist(["(%s, %s, %s)" % (cstr(a), cstr(b), cN(bits))
                 for (a, b), bits in zip(case["pairs"], result.get("sim", []))])
    return "{| c_sugg := %s; c_sim := %s; c_expr := %s; c_out := %s |}" % (
        "true" if sugg else "false", sim, coq_bexpr(case["expr"]), coq_outcome04(result))


HEADER04 = """From DarlingModel Require Import Base.Prelude Err.ErrTree Err.Builder Exec.ErrObs.
Local Open Scope string_scope."""
