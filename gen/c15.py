"""C15 — attribute syntax is split into items and routed to conversion hooks by form."""
import json
import vlib
import syntax
import convlib
from vlib import cbool, clist, copt, cN, cnat

LITS = ["1", "0xFF", "1u8", "-5", "1.5", "-1.5e3", "\"s\"", "r#\"raw\"#", "'c'", "b'x'", "b\"bs\"", "true", "false", "c\"cs\""]
PATHS = ["a", "a::b", "::a", "::a::b", "r#type", "self", "Self", "crate::x", "super::y", "type", "fn", "match", "true", "x::<T>"]
VALUES = ["1", "-5", "\"s\"", "true", "a", "a::b", "a + b", "f(x, y)", "|a| a", "|a, b| a + b", "[1, 2]", "(1, 2)", "{ 1 }", "1..2", "!x",
          "&x", "x.y", "if a { b } else { c }", "-x", "- 5"]
JUNK = [";", "=", "+", "#", "!", "=>", "->", "@", "?", "$", "(", "[", "{"]


def gen_item(rng, depth):
    r = rng.random()
    if r < 0.22:
        return rng.choice(LITS)
    p = rng.choice(PATHS)
    if r < 0.45:
        return p
    if r < 0.75:
        return "%s = %s" % (p, rng.choice(VALUES))
    if depth <= 0:
        return "%s()" % p
    n = rng.choice([0, 1, 2, 3])
    inner = ", ".join(gen_item(rng, depth - 1) for _ in range(n))
    if n and rng.random() < 0.2:
        inner += ","
    return "%s(%s)" % (p, inner)


def gen_list(rng):
    n = rng.choice([0, 1, 1, 2, 3, 4, 6])
    items = [gen_item(rng, rng.choice([0, 1, 2, 4])) for _ in range(n)]
    s = ", ".join(items)
    if items and rng.random() < 0.25:
        s += ","
    return s


def mutate(rng, src):
    """single-token mutations: dropped / doubled commas, stray punctuation, missing values"""
    toks = src.split(" ")
    if not toks or toks == [""]:
        return rng.choice([",", ";", ",,", "="])
    k = rng.randrange(len(toks))
    r = rng.random()
    if r < 0.25 and any(t.endswith(",") for t in toks):
        ks = [i for i, t in enumerate(toks) if t.endswith(",")]
        i = rng.choice(ks)
        toks[i] = toks[i][:-1]                      # dropped comma
    elif r < 0.45:
        toks.insert(k, ",")                         # doubled / leading comma
    elif r < 0.7:
        toks.insert(k, rng.choice(JUNK[:10]))       # stray punctuation
    elif r < 0.85 and "=" in toks:
        i = toks.index("=")
        if i + 1 < len(toks):
            del toks[i + 1]                         # missing value
    else:
        del toks[k]
    return " ".join(toks)


def c_row(r):
    return "(mkRow %s %s %s %s %s %s %s %s %s)" % (
        cbool(r["comma"]), cbool(r["lit"]), cbool(r["litbool"]), cbool(r["eq2"]), cbool(r["ident"]), cbool(r["colon2"]),
        cbool(r["ident3"]), copt(r["lit_len"], cnat), copt(r["meta_len"], cnat))


HEADER_LIST = """From DarlingModel Require Import Base.Prelude Conv.ListParse Exec.ListCase."""


def part_a(R, tier, binary):
    n = 2500 if tier == "quick" else 40000
    srcs = ["", ",", "a", "a,", "a, b", "a b", "a,, b", "true", "true = 1", "true, false", "::a", "::a::b = 1", "type = 1", "self", "fn",
            "x = -5", "x = -5, y", "-5", "- 5, a", "a = ", "a = , b", "a(b c)", "a(b, c) d", "\"s\" \"t\"", "a = |x, y| x, b", "a; b", "= 1", "a = 1 2"]
    while len(srcs) < n:
        s = gen_list(R.rng)
        srcs.append(s)
        if R.rng.random() < 0.6:
            srcs.append(mutate(R.rng, s))
    cases = [{"id": i, "op": "parse_list", "src": s} for i, s in enumerate(srcs)]
    results = vlib.run_harness(binary, cases)
    terms, keep = [], []
    stats = {"accepted": 0, "rejected": 0, "lex_error": 0, "panic": 0}
    for c in cases:
        r = results.get(c["id"], {})
        if "unparsed" in r:
            stats["lex_error"] += 1
            continue
        if "tbl" not in r:
            R.violation("harness-error", "harness could not run %s: %s" % (json.dumps(c), json.dumps(r)[:300]),
                        {"case": c, "result": r, "failed": "harness observation"}, found_input=False)
            continue
        if "panic" in r:
            stats["panic"] += 1
            R.violation("parse-list-panic", "NestedMeta::parse_meta_list panicked on `%s`: %s" % (c["src"], r["panic"]),
                        {"case": c, "observation": r, "failed": "totality of parse_meta_list"})
            continue
        obs = r["obs"]
        stats["accepted" if obs is not None else "rejected"] += 1
        obs_t = copt(obs, lambda l: clist(["(%s, %s, %s)" % (cbool(b), "0%N" if s is None else cN(s), cN(k)) for b, s, k in l]))
        terms.append("{| l_tbl := %s; l_obs := %s; l_reparse_same := %s |}" % (
            clist([c_row(x) for x in r["tbl"]]), obs_t, cbool(r.get("reparse_same", True))))
        keep.append(c)
    bad, errors = vlib.coq_eval("C15", HEADER_LIST, terms, "run_list %s", tag="lists")
    vlib.decide(R, terms, bad, errors,
                describe=lambda i: "token stream `%s`" % keep[i]["src"],
                model_body="Eval vm_compute in (option_map (map pitem_view) (parse_meta_list (l_tbl c)), l_obs c).",
                key_fn=lambda i: "list-parse",
                size_fn=lambda i: len(keep[i]["src"]),
                header=HEADER_LIST, results=results, cases=keep,
                failed_holds="holds_list (Exec/ListCase.v): comma-separated sequence of items / print-parse identity",
                failed_agree="correspondence agree_list (Exec/ListCase.v) with Conv/ListParse.v")
    return keep, stats


ITEMS_B = ["x", "x()", "x(a)", "x(a, 1, \"s\")", "x(a b)", "x = true", "x = false", "x = \"str\"", "x = 'c'", "x = 5", "x = -5", "x = 1.5",
           "x = b'a'", "x = b\"ab\"", "x = c\"cs\"", "x = a", "x = a::b", "x = a + b", "x = |a| a", "x = [1]", "x = \"\""]
NESTED_B = ["true", "\"s\"", "'c'", "5", "1.5", "b'a'", "a", "a = true", "a(b)", "a = \"s\"", "-2"]


def part_b(R, tier):
    raw = []
    masks = range(128)
    for m in masks:
        for mode in (0, 1, 2):
            t = "P%03d<%d>" % (m, mode)
            items = ITEMS_B if (tier == "thorough" or mode == 0 and m in (0, 127)) else R.rng.sample(ITEMS_B, 6 if mode == 0 else 3)
            for s in items:
                raw.append({"target": t, "src": s, "entry": "meta"})
                if "=" in s and R.rng.random() < (0.5 if tier == "thorough" else 0.15):
                    raw.append({"target": t, "src": s, "entry": "meta", "group_value": R.rng.choice([1, 2, 3])})
            for s in (NESTED_B if tier == "thorough" else R.rng.sample(NESTED_B, 2)):
                raw.append({"target": t, "src": s, "entry": "nested"})
    return raw


def run(tier, seed, replay=None):
    prop = "C15"
    R = vlib.Run(prop, tier, seed)
    R.proof_coverage(vlib.proof_step(prop))
    binary, log = vlib.build_harness()
    if binary is None:
        R.violation("harness-build", "harness does not build against /repo: " + log[-1500:],
                    {"failed": "cargo build vh-rt", "log": log[-4000:]}, found_input=False)
        return R.finish()
    keep_a, stats_a = ([], {})
    if replay:
        c = json.load(open(replay))["case"]
        if c.get("op") == "parse_list":
            raw = []
            # replay of a list case: run part A on that single source
            R.rng.seed(0)
            cases = [{"id": 0, "op": "parse_list", "src": c["src"]}]
            res = vlib.run_harness(binary, cases)
            print(json.dumps(res.get(0))[:2000])
            return R.finish()
        raw = [{k: c[k] for k in ("target", "src", "entry", "group_value") if k in c}]
    else:
        keep_a, stats_a = part_a(R, tier, binary)
        raw = part_b(R, tier)
    out = convlib.run_conv_property(
        R, prop, raw, "run_conv holds15 %s",
        lambda c, r: syntax.c_case_conv(c["target"], c["entry"], r),
        describe=lambda c: "probe %s on `%s` (%s%s)" % (c["target"], c["src"], c["entry"],
                                                        ", grouped x%d" % c["group_value"] if c.get("group_value") else ""),
        key_fn=lambda c, r: "probe-routing",
        model_body="Eval vm_compute in (model_conv c, item_hook (k_input c)).",
        failed_holds="holds15 (Exec/ConvCase.v): routing table by form, spans of returned errors")
    if out is None:
        return R.finish()
    keep = out["keep"]
    R.coverage.update({
        "evaluations": len(keep) + len(keep_a),
        "distinct_nontrivial": len({(c["target"], c["src"], c["entry"], c.get("group_value", 0)) for c in keep}) +
                               len({c["src"] for c in keep_a if "," in c["src"]}),
        "rule": "(A) token streams from a grammar of lists (depth <= 4, every literal kind, negative numbers, raw identifiers, global and "
                "keyword-led paths, arbitrary expressions after '=') and their single-token mutations, each pre-lexed by syn alone into the "
                "look-ahead / extent table the model runs on; compared: accept/reject, item classes, starts, extents, print-reparse identity. "
                "(B) all 128 probe implementers (every subset of the 7 hooks) x 3 modes (Ok / unspanned error / spanned error) x items of every "
                "form, nested-literal position and invisible groups; non-trivial (A) = at least one comma",
        "samples": [keep_a[i] for i in (0, len(keep_a) // 2, len(keep_a) - 1) if i < len(keep_a)] +
                   [keep[i] for i in (0, len(keep) // 2, len(keep) - 1) if i < len(keep)],
        "distribution": {"lists": stats_a, "probe_outcomes": out["outcomes"], "probe_types": len({c["target"] for c in keep})},
    })
    R.assumptions = ["the extent of each item (where syn's Lit / Meta parser stops) and syn's peek results are oracles computed with syn alone",
                     "probe implementers are written once in Rust (harness) and once in Gallina (Conv/Probe.v)"]
    return R.finish()
