"""C01 — derived struct receivers compute exactly the declared field mapping."""
import json
import vlib
import recvlib
import convlib
import c07
import recvprop


def has_badlist(node):
    if isinstance(node, dict):
        return node.get("t") == "badlist" or any(has_badlist(v) for v in node.values())
    if isinstance(node, list):
        return any(has_badlist(v) for v in node)
    return False


def gen_cases(rng, tier):
    cases = []
    per = 30 if tier == "quick" else 80
    for x in recvlib.RECVS:
        if x["trait"] != "FromMeta":
            continue
        for _ in range(per):
            src = recvlib.gen_recv_item(rng, x, "x")
            if src is None:
                continue
            cases.append({"target": x["name"], "src": src, "entry": "meta"})
    return recvprop.all_with_pairs(recvprop.with_groups(rng, cases))


def run(tier, seed, replay=None):
    prop = "C01"
    R = vlib.Run(prop, tier, seed)
    R.proof_coverage(vlib.proof_step(prop))
    if replay:
        c = json.load(open(replay))["case"]
        raw = [{k: c[k] for k in ("target", "src", "entry", "pairs", "group_all") if k in c}]
    else:
        raw = gen_cases(R.rng, tier)
    out = convlib.run_conv_property(
        R, prop, raw, "run_recv_counted holds01 nontrivial01 %s",
        lambda c, r: recvlib.c_case_recv(recvlib.BY_NAME[c["target"]], c, r),
        describe=lambda c: "%s on %s" % (c["target"], recvprop.shown(c)),
        key_fn=lambda c, r: "struct-mapping",
        model_body="Eval vm_compute in (model_recv c, expected_of c).",
        failed_holds="holds01 (Exec/RecvCase.v): expected (Spec/C01.v), the per-field comprehension", header=recvlib.HEADER_RECV)
    if out is None:
        return R.finish()
    keep = out["keep"]
    # the generator writes well-formed comma lists of meta items only: darling's own list parser (whose verdict the model takes
    # as its input) must have read every one of them as a list
    rejected = [c for c in keep if has_badlist(out["results"][c["id"]].get("echo"))]
    for c in rejected[:3]:
        r = out["results"][c["id"]]
        R.violation("list-rejected", "the mistake-free input `%s` for %s is not parsed: darling's list parser rejects a well-formed comma list of "
                    "meta items (%s)" % (c["src"], c["target"], json.dumps(r.get("err") or r.get("ok"))[:300]),
                    {"case": {k: c[k] for k in ("target", "src", "entry", "pairs", "group_all") if k in c}, "observation": {k: v for k, v in r.items() if k not in ("or", "pf", "sim")},
                     "failed": "generator ground truth: the source is a well-formed list of meta items"})
    R.coverage.update({
        "evaluations": len(keep),
        "distinct_nontrivial": min(vlib.LAST_COUNT, len({(c["target"], c["src"]) for c in keep})),
        "rule": "corpus receivers (named / unit / newtype structs and enums; rename, rename_all x 6 rules, defaults at field and container level, skip, "
                "multiple, flatten, with, map / and_then at both levels, allow_unknown_fields, from_word / from_none; nesting depth <= 3) x mistake-free "
                "inputs from the receiver-directed generator (random subsets of optional fields, random item order, every accepted literal spelling); "
                "non-trivial = the per-field specification assigns the input a value (counted inside Coq: %d of %d)" % (vlib.LAST_COUNT, len(keep)),
        "samples": [keep[i] for i in (0, len(keep) // 3, len(keep) // 2, len(keep) - 1) if i < len(keep)],
        "distribution": {"outcomes": out["outcomes"], "receivers": len({c["target"] for c in keep}), "spec_defined": vlib.LAST_COUNT},
    })
    R.assumptions = ["leaf conversions are the C11-C14 models", "user callables are a fixed library written in Rust and in Gallina",
                     "Default::default() of receivers is their derived Default"]
    return R.finish()
