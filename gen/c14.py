"""C14 — keyed collections: all distinct keys kept, every repeat and bad entry reported."""
import json
import vlib
import syntax
import convlib

KEYS = {"String": "KString", "syn::Ident": "KIdent", "syn::Path": "KPath"}
VALS = ["bool", "u8", "String", "syn::Expr", "HashMap<String,u8>", "BTreeMap<String,String>"]
# (`r#k1` and `k1` are one String key but two paths / identifiers; `::a` and `a` are two keys of every kind)
KEYNAMES = ["a", "b", "c", "key", "a::b", "a::c", "::a", "r#type", "a::<T>", "k1", "k2", "self", "r#k1", "r#a", "type"]
GOOD = {"bool": ["", " = true", " = false", ' = "true"'], "u8": [" = 1", " = 255", ' = "7"', " = 0x10"],
        "String": [' = "v"', ' = ""', ' = "w x"'], "syn::Expr": [" = a + b", " = 1", ' = "f(x)"', " = [1, 2]", " = -1", " = -2.5"],
        "HashMap<String,u8>": ["(x = 1)", "(x = 1, y = 2)", "()"], "BTreeMap<String,String>": ['(x = "1")', "()"]}
BAD = {"bool": [" = 1", ' = "yes"', "(x)"], "u8": [" = 256", " = -1", ' = "x"', "", " = true"],
       "String": [" = 1", "", "(x)"], "syn::Expr": ["", "(x)", ' = "1 +"'],
       "HashMap<String,u8>": ["(x = 300)", "(x = 1, x = 2)", " = 1", "(1)", "(x = 300, y = true)"],
       "BTreeMap<String,String>": ["(x = 1)", "", '(x = "1", x = "2", "lit")']}
LITS = ["1", '"lit"', "true", "'c'"]


def gen_list(rng, val, n):
    items = []
    pool = rng.sample(KEYNAMES, rng.randint(1, min(len(KEYNAMES), max(1, n))))
    for _ in range(n):
        r = rng.random()
        if r < 0.08:
            items.append(rng.choice(LITS))
            continue
        k = rng.choice(pool) if rng.random() < 0.8 else rng.choice(KEYNAMES)
        tail = rng.choice(BAD[val]) if rng.random() < 0.2 else rng.choice(GOOD[val])
        items.append(k + tail)
    return "m(%s)" % ", ".join(items)


def gen(rng, tier):
    cases = []
    reps = 12 if tier == "quick" else 200
    for kind, keys in (("HashMap", ["String", "syn::Ident", "syn::Path"]), ("BTreeMap", ["String", "syn::Ident"])):
        for k in keys:
            for v in VALS:
                t = "%s<%s,%s>" % (kind, k, v)
                twin = None
                if k != "syn::Path":
                    twin = "%s<%s,%s>" % ("BTreeMap" if kind == "HashMap" else "HashMap", k, v)
                for _ in range(reps):
                    n = rng.choice([0, 1, 2, 2, 3, 4, 5, 6, 8, 12])
                    src = gen_list(rng, v, n)
                    c = {"target": t, "src": src, "entry": "meta", "per_item": v, "key": k}
                    if " = " in src and rng.random() < 0.2:
                        c["group_all"] = rng.choice([1, 2, 5, 6])       # every value inside invisible groups (macro_rules! fragments)
                    if twin:
                        c["twin"] = twin
                    cases.append(c)
                for src in ("m", "m = 1", 'm = "x"', "m(a b)", "m(,)"):
                    cases.append({"target": t, "src": src, "entry": "meta", "per_item": v, "key": k})
                cases.append({"target": t, "src": "", "entry": "none", "per_item": v, "key": k})
    return cases


def run(tier, seed, replay=None):
    prop = "C14"
    R = vlib.Run(prop, tier, seed)
    R.proof_coverage(vlib.proof_step(prop))
    if replay:
        c = json.load(open(replay))["case"]
        raw = [{k: c[k] for k in ("target", "src", "entry", "per_item", "key", "twin", "group_all") if k in c}]
    else:
        raw = gen(R.rng, tier)

    def term(c, r):
        inner = vlib.clist(["(CPanic \"literal item\")" if o is None else syntax.c_conv_obs(o) for o in r.get("items_out", [])])
        twin = vlib.copt(r.get("twin_out"), syntax.c_conv_obs)
        return "{| m_case := %s; m_key := %s; m_inner := %s; m_twin := %s |}" % (
            syntax.c_case_conv(c["target"], c["entry"], r), KEYS[c["key"]], inner, twin)

    out = convlib.run_conv_property(
        R, prop, raw, "run14 %s", term,
        describe=lambda c: "%s on `%s`" % (c["target"], c["src"]),
        key_fn=lambda c, r: "map:%s" % c["key"],
        model_body="Eval vm_compute in (model_conv (m_case c), match k_input (m_case c) with NList _ _ _ items => "
                   "expect14 (m_key c) [] items (m_inner c) | _ => ([], []) end).",
        failed_holds="holds14 (Exec/ConvCase.v): the map's outcome against the element type's outcome on every item")
    if out is None:
        return R.finish()
    keep = out["keep"]
    lens = {}
    for c in keep:
        n = c["src"].count(",") + 1 if "(" in c["src"] and not c["src"].endswith("()") else 0
        lens[n] = lens.get(n, 0) + 1
    R.coverage.update({
        "evaluations": len(keep),
        "distinct_nontrivial": len({(c["target"], c["src"]) for c in keep if c["src"].count(",") >= 1}),
        "rule": "all five map instantiations (HashMap<String|Ident|Path,_>, BTreeMap<String|Ident,_>) x value types {bool, u8, String, Expr, "
                "nested hash map, nested ordered map} x random item lists of length 0-12 with key repetition, multi-segment / global / raw / "
                "generic keys, literal items and bad values; the element type is run on every item by the harness so that the specification is "
                "evaluated on the implementation's own outputs; hash and ordered twins are compared; non-trivial = at least two items",
        "samples": [keep[i] for i in (0, len(keep) // 3, len(keep) // 2, len(keep) - 2) if i < len(keep)],
        "distribution": {"outcomes": out["outcomes"], "list_lengths": lens, "sources_rejected_by_syn": out["unparsed"]},
    })
    R.assumptions = ["structural equality of syn::Path keys is token-string equality",
                     "element conversions are the C11-C13 models"]
    return R.finish()
