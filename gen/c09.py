"""C09 — derived enum receivers select exactly one declared, non-skipped variant."""
import json
import vlib
import recvlib
import recvprop
import corpusgen


def other_spellings(v):
    """the variant's name under every case rule and its identifier: names that must NOT select it unless they are its effective name"""
    out = {v["ident"], v["ident"].lower()}
    for rule in corpusgen.RULES:
        out.add(corpusgen.apply_to_variant(rule, v["ident"]))
    return {n for n in out if n and "-" not in n}


def gen_cases(rng, tier):
    cases = []
    add = lambda x, src, entry="meta": cases.append({"target": x["name"], "src": src, "entry": entry})
    per = 10 if tier == "quick" else 60
    for x in recvlib.RECVS:
        if x["kind"] != "enum" or x["trait"] != "FromMeta":
            continue
        names = set()
        for v in x["variants"]:
            names.add(v["name"])
            names |= other_spellings(v)
        names = sorted(n for n in names if not recvlib.kebab_unreachable(n)) + ["nosuch", "plai"]
        # word, absent, literal forms
        add(x, "x")
        add(x, "", "none")
        for lit in ("5", "true", "'c'", "1.5", 'b"x"', "a::b", "[1, 2]"):
            add(x, "x = " + lit)
        add(x, '"lit"', "nested")
        # string form: every name (declared, skipped, other spellings, unknown)
        for n in names:
            add(x, 'x = "%s"' % n)
            if recvlib.w(n) != n:
                add(x, 'x = "%s"' % recvlib.w(n))    # inside a string, `r#` is not a spelling of the name
        # list form: arity 0..3 and every shape of the single item
        add(x, "x()")
        add(x, 'x("lit")')
        add(x, "x(7)")
        for n in names:
            add(x, 'x("%s")' % n)           # a quoted name inside the list is a literal item, never a selection
            wn = recvlib.w(n)                # a keyword is written `r#name` as an item
            add(x, "x(%s)" % wn)
            add(x, "x(::%s)" % wn)           # a global path is a different path
            add(x, "x(%s = 1)" % wn)
            add(x, 'x(%s = "s")' % wn)
            add(x, "x(%s())" % wn)
            add(x, "x(%s(bogus = 1))" % wn)
        for _ in range(4):
            k = rng.choice([2, 2, 3, 3, 4])
            add(x, "x(%s)" % ", ".join(recvlib.w(rng.choice(names)) for _ in range(k)))
        # receiver-directed: a mistake-free input for each reachable variant, then mutated
        for _ in range(per):
            src = recvlib.gen_recv_item(rng, x, "x")
            if src is None:
                continue
            add(x, src)
            if rng.random() < 0.6:
                add(x, recvlib.inject_mistakes(rng, src, rng.choice([1, 1, 2, 3])))
    return recvprop.all_with_pairs(recvprop.with_groups(rng, cases, 0.1))


def run(tier, seed, replay=None):
    prop = "C09"
    R = vlib.Run(prop, tier, seed)
    R.proof_coverage(vlib.proof_step(prop))
    if replay:
        c = json.load(open(replay))["case"]
        raw = [{k: c[k] for k in ("target", "src", "entry", "pairs", "group_all") if k in c}]
    else:
        raw = gen_cases(R.rng, tier)
    out = recvprop.recv_part(
        R, prop, raw, "holds09", "nontrivial09",
        key_fn=lambda c, r: "enum-selection",
        model_body="Eval vm_compute in (model_recv c, expected_of c, mistakes_of c).",
        failed="holds09 (Exec/RecvCase.v): the per-variant specification of Spec/C01.v (value iff selected, error count) and never a skipped variant")
    if out is None:
        return R.finish()
    keep = out["keep"]
    forms = {"word": 0, "string": 0, "other_value": 0, "list0": 0, "list1": 0, "list2+": 0, "absent": 0, "nested_literal": 0}
    for c in keep:
        s = c["src"]
        if c["entry"] == "none":
            forms["absent"] += 1
        elif c["entry"] == "nested":
            forms["nested_literal"] += 1
        elif s == "x":
            forms["word"] += 1
        elif s.startswith('x = "'):
            forms["string"] += 1
        elif s.startswith("x ="):
            forms["other_value"] += 1
        elif s == "x()":
            forms["list0"] += 1
        else:
            depth, commas = 0, 0
            for ch in s[2:-1]:
                depth += ch in "(["
                depth -= ch in ")]"
                commas += (ch == "," and depth == 0)
            forms["list1" if commas == 0 else "list2+"] += 1
    enums = [x for x in recvlib.RECVS if x["kind"] == "enum"]
    R.coverage.update({
        "evaluations": len(keep),
        "distinct_nontrivial": min(out["nontrivial"], len({(c["target"], c["src"], c["entry"]) for c in keep})),
        "rule": "every enum receiver of the corpus (%d: unit / newtype / struct variants mixed, rename, rename_all over 6 rules, skip, word, from_word, from_none, "
                "allow_unknown_fields) x {word, absent, nested literal, every non-string value kind, the string form and the one-item list forms (word, name-value, "
                "empty list, list with an unknown field) for EVERY spelling of every variant (effective name, identifier, all case rules, skipped ones included, unknown "
                "names), lists of 0 / 2 / 3 / 4 items, receiver-directed mistake-free inputs and mutations}; non-trivial = an enum receiver (counted in Coq: %d)"
                % (len(enums), out["nontrivial"]),
        "samples": recvprop.samples(keep),
        "distribution": {"outcomes": out["outcomes"], "forms": forms, "enum_receivers": len({c["target"] for c in keep}),
                         "skipped_variants_in_corpus": sum(1 for x in enums for v in x["variants"] if v["skip"])},
    })
    R.assumptions = ["field types inside variants are the C11-C14 / C01 models", "user callables (from_word, from_none) are a fixed library"]
    return R.finish()
