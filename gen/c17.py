"""C17 — did-you-mean suggestions are sound, best-match and scoped to the level."""
import json
import vlib
import recvlib
import recvprop


def mutate(rng, name):
    """a name at edit distance 0..3 from `name`"""
    s = list(name)
    for _ in range(rng.choice([0, 1, 1, 1, 2, 2, 3])):
        if not s:
            break
        op = rng.choice(["del", "swap", "sub", "ins", "dup"])
        i = rng.randrange(len(s))
        if op == "del" and len(s) > 1:
            del s[i]
        elif op == "swap" and i + 1 < len(s):
            s[i], s[i + 1] = s[i + 1], s[i]
        elif op == "sub":
            s[i] = rng.choice("abcdefghijklmnopqrstuvwxyz_")
        elif op == "ins":
            s.insert(i, rng.choice("abcdefghijklmnopqrstuvwxyz_"))
        else:
            s.insert(i, s[i])
    out = "".join(s)
    if not out or not (out[0].isalpha() or out[0] == "_") or not all(ch.isalnum() or ch == "_" for ch in out):
        return name + "x"
    if out in ("true", "false", "type", "fn", "as", "in", "if", "do", "for", "mod", "pub", "ref", "use", "let", "mut", "dyn", "box", "try"):
        return out + "_"
    return out


def names_everywhere(x, acc=None):
    """(valid, skipped, flatten-member) names reachable from receiver x"""
    acc = acc if acc is not None else {"valid": set(), "skipped": set()}
    def walk_ty(t):
        if t["t"] == "recv":
            names_everywhere(recvlib.BY_NAME[t["name"]], acc)
        elif "e" in t:
            walk_ty(t["e"])
    for f in x.get("fields", []):
        (acc["skipped"] if f["skip"] else acc["valid"]).add(f["name"] if not f["skip"] else f["ident"])
        walk_ty(f["ty"])
    if "inner" in x:
        walk_ty(x["inner"])
    for v in x.get("variants", []):
        (acc["skipped"] if v["skip"] else acc["valid"]).add(v["name"])
        for f in v["fields"]:
            (acc["skipped"] if f["skip"] else acc["valid"]).add(f["name"] if not f["skip"] else f["ident"])
            walk_ty(f["ty"])
    return acc


def insert_unknown(rng, src, item):
    opens = [i for i, ch in enumerate(src) if ch == "("]
    if not opens:
        return None
    p = rng.choice(opens)
    rest = src[p + 1:].lstrip()
    return src[:p + 1] + item + ("" if rest.startswith(")") else ", ") + src[p + 1:]


def gen_cases(rng, tier):
    cases = []
    per = 16 if tier == "quick" else 120
    for x in recvlib.RECVS:
        if x["trait"] != "FromMeta" or x["kind"] in ("unit",):
            continue
        nm = names_everywhere(x)
        pool = sorted(n for n in nm["valid"] | nm["skipped"] if not recvlib.kebab_unreachable(n))
        if not pool:
            continue
        has_flat = any(f["flatten"] for f in x.get("fields", []))
        own = [f["name"] for f in x.get("fields", []) if not f["skip"] and not f["flatten"] and not recvlib.kebab_unreachable(f["name"])]
        for _ in range(per * (4 if has_flat else 1)):
            src = recvlib.gen_recv_item(rng, x, "x") or "x()"
            k = rng.choice([1, 1, 1, 2, 2, 3])
            for _ in range(k):
                # under a flatten member, prefer misspellings of the ENCLOSING receiver's own names (they must not leak downwards)
                base = rng.choice(own) if (has_flat and own and rng.random() < 0.6) else rng.choice(pool)
                u = mutate(rng, base)
                item = rng.choice(["%s = 1" % u, "%s" % u, '%s = "v"' % u, "%s(a = 1)" % u])
                s2 = insert_unknown(rng, src, item)
                if s2 is None:
                    break
                src = s2
            # sometimes add an unrelated second mistake so that bundles have several members
            if rng.random() < 0.3:
                src = recvlib.inject_mistakes(rng, src, 1)
            cases.append({"target": x["name"], "src": src, "entry": "meta"})
    return recvprop.all_with_pairs(cases)


def run(tier, seed, replay=None):
    prop = "C17"
    R = vlib.Run(prop, tier, seed)
    R.proof_coverage(vlib.proof_step(prop))
    if replay:
        c = json.load(open(replay))["case"]
        raw = [{k: c[k] for k in ("target", "src", "entry", "pairs", "group_all") if k in c}]
    else:
        raw = gen_cases(R.rng, tier)
    out = recvprop.recv_part(
        R, prop, raw, "holds17", "nontrivial17",
        key_fn=lambda c, r: "suggestion",
        failed="holds17 (Exec/RecvCase.v): every unknown-field leaf, resolved to its position by its location path, carries exactly the argmax "
               "suggestion of Spec/C17.v over the names valid at that position")
    if out is None:
        return R.finish()
    keep = out["keep"]
    # the same cases with the `suggestions` feature disabled
    off = None
    binary_off, log = vlib.build_harness(no_default=True)
    if binary_off is None:
        R.violation("harness-build", "harness does not build without the suggestions feature: " + log[-1500:],
                    {"failed": "cargo build vh-rt --no-default-features", "log": log[-4000:]}, found_input=False)
    else:
        sub = keep[:: max(1, len(keep) // (600 if tier == "quick" else 6000))]
        off = run_feature_off(R, prop, sub, binary_off)
    with_sugg = sum(1 for c in keep if "Did you mean" in json.dumps(out["results"][c["id"]]))
    R.coverage.update({
        "evaluations": len(keep) + (off or {}).get("evaluations", 0),
        "distinct_nontrivial": min(out["nontrivial"], len({(c["target"], c["src"]) for c in keep})),
        "rule": "struct, newtype and enum receivers of the corpus (skip, rename, rename_all, flatten, nesting to depth 3) x inputs with 1-3 unknown names at edit "
                "distance 0-3 from a valid, skipped or enclosing receiver's name, inserted at random depths (top level, nested receivers, enum variants, flatten "
                "members), alone or next to another mistake; similarity scores are strsim's, per case; non-trivial = at least one unknown-field leaf whose "
                "position the declaration describes (counted in Coq: %d); the same inputs are re-run with the `suggestions` feature off" % out["nontrivial"],
        "samples": recvprop.samples(keep),
        "distribution": {"outcomes": out["outcomes"], "cases_with_a_suggestion": with_sugg, "receivers": len({c["target"] for c in keep}),
                         "feature_off": off},
    })
    R.assumptions = ["strsim::jaro_winkler enters as a per-case table of f64 bit patterns (any similarity function satisfies the theorems)"]
    return R.finish()


def run_feature_off(R, prop, cases, binary_off):
    """with the feature disabled the same errors appear with no suggestion: model (sugg = false) and predicate evaluated on the feature-off build"""
    import syntax
    cs = [dict(c, id=i, op="conv", oracles=True) for i, c in enumerate(cases)]
    results = vlib.run_harness(binary_off, cs)
    terms, keep = [], []
    for c in cs:
        r = results.get(c["id"], {})
        if "unparsed" in r or "error" in r or "crash" in r or "harness_panic" in r:
            continue
        terms.append(recvlib.c_case_recv(recvlib.BY_NAME[c["target"]], c, r, sugg=False))
        keep.append(c)
    bad, errors = vlib.coq_eval(prop, recvlib.HEADER_RECV, terms, "run_recv_counted holds17 nontrivial17 %s", shard=120, tag="off")
    vlib.decide(R, terms, bad, errors,
                describe=lambda i: "%s on `%s` (suggestions feature off)" % (keep[i]["target"], keep[i]["src"]),
                model_body="Eval vm_compute in (model_recv c).",
                key_fn=lambda i: "suggestion-feature-off",
                size_fn=lambda i: len(keep[i]["src"]),
                header=recvlib.HEADER_RECV, results=results, cases=keep,
                failed_holds="holds17 with rc_sugg = false: no leaf may carry a suggestion",
                failed_agree="correspondence agree_recv (feature off)")
    leaked = sum(1 for c in keep if "Did you mean" in json.dumps(results[c["id"]]))
    return {"evaluations": len(keep), "outputs_mentioning_a_suggestion": leaked}
