"""C07 — parsing is total at run time: every input yields Ok or Err, never a panic.  (First version: FromMeta receivers of the corpus
and the library targets; element-level entry points are added with Run/Outer.)"""
import json
import vlib
import syntax
import recvlib
import recvprop
import convlib
import erecvlib
import elemprop


def gen_cases(rng, tier):
    cases = []
    per = 12 if tier == "quick" else 80
    for x in recvlib.RECVS:
        if x["trait"] != "FromMeta":
            continue
        names = sorted(recvlib.all_names(x))
        for _ in range(per):
            src = recvlib.gen_recv_item(rng, x, "x")
            if src is None:
                src = "x()"
            r = rng.random()
            if r < 0.6:
                src = recvlib.inject_mistakes(rng, src, rng.choice([1, 1, 2, 3, 5, 8]))
            cases.append({"target": x["name"], "src": src, "entry": "meta"})
        for src in ["x", "x()", "x = 1", 'x = "s"', "x(1)", "x(a b)", "x = a::b", "x(x(x(x())))", "x = 99999999999999999999999999999999999999999999"]:
            cases.append({"target": x["name"], "src": src, "entry": "meta"})
        cases.append({"target": x["name"], "src": "", "entry": "none"})
        cases.append({"target": x["name"], "src": '"lit"', "entry": "nested"})
    return recvprop.all_with_pairs(cases)


def gen_elem_cases(rng, tier):
    """element-level entry points: every receiver of the element corpus on faulty / degenerate elements"""
    cases = []
    per = 10 if tier == "quick" else 80
    for x in erecvlib.ERECVS:
        for _ in range(per):
            cases.append(erecvlib.make_case(rng, x, rng.choice([0, 1, 2, 3, 5])))
        if x["kind"] == "derive_input":
            for kind in ("union", "enum", "struct"):
                for _ in range(2):
                    attrs, src = erecvlib.gen_derive_input_src(rng, x, rng.choice([0, 2]), body_kind=kind)
                    cases.append(dict(erecvlib.make_case(rng, x, 0), src=src))
            for src in ("struct S;", "enum S {}", "union S { a: u8 }", "struct S();", "struct S {}", "#[a] #[a()] #[a = 1] #[a(a b)] struct S;",
                        "enum S { A = 1, B(u8), C { x: u8 } }"):
                cases.append(dict(erecvlib.make_case(rng, x, 0), src=src))
        if x["kind"] == "attributes":
            for src in ("struct S;", "#[a] #[a()] #[a = 1] #[a(a b)] #[a(1, 2)] struct S;"):
                cases.append(dict(erecvlib.make_case(rng, x, 0), src=src))
    return cases


def run(tier, seed, replay=None, prop="C07", holds="holds07"):
    R = vlib.Run(prop, tier, seed)
    R.proof_coverage(vlib.proof_step(prop))
    eout = None
    if replay:
        c = json.load(open(replay))["case"]
        if c.get("op") == "elem":
            eout = elemprop.elem_part(R, prop, [{k: v for k, v in c.items() if k != "id"}], "holds07e", "holds07e", key_fn=lambda c, r: "elem-panic",
                                      failed="holds07e (Exec/ElemCase.v)")
            return R.finish()
        raw = [{k: c[k] for k in ("target", "src", "entry", "pairs", "group_all") if k in c}]
    else:
        raw = gen_cases(R.rng, tier)
        if prop == "C07":
            eout = elemprop.elem_part(R, prop, gen_elem_cases(R.rng, tier), "holds07e", "holds07e",
                                      key_fn=lambda c, r: "elem-panic" if "panic" in r else "elem", failed="holds07e (Exec/ElemCase.v)")
    out = convlib.run_conv_property(
        R, prop, raw, "run_recv " + holds + " %s",
        lambda c, r: recvlib.c_case_recv(recvlib.BY_NAME[c["target"]], c, r),
        describe=lambda c: "%s::%s on `%s`" % (c["target"], c["entry"], c["src"]),
        key_fn=lambda c, r: "recv-panic" if "panic" in r else "recv",
        model_body="Eval vm_compute in (model_recv c).",
        failed_holds=holds + " (Exec/RecvCase.v)", header=recvlib.HEADER_RECV)
    if out is None:
        return R.finish()
    keep = out["keep"]
    ek = (eout or {}).get("keep", [])
    R.coverage.update({
        "evaluations": len(keep) + len(ek),
        "distinct_nontrivial": len({(c["target"], c["src"]) for c in keep if "(" in c["src"]}) + len({(c["recv"], c["src"]) for c in ek}),
        "rule": "every FromMeta receiver of the corpus (%d: named / unit / newtype structs and enums over the derive option space, nested to depth 3) x "
                "mistake-free inputs and inputs with 1-8 injected mistakes, plus degenerate forms (word, empty list, literals, malformed lists, deep "
                "nesting, 44-digit integers), from_none and nested-literal position; non-trivial = a list form" % len([x for x in recvlib.RECVS if x["trait"] == "FromMeta"]),
        "samples": [keep[i] for i in (0, len(keep) // 3, len(keep) // 2, len(keep) - 1) if i < len(keep)],
        "distribution": {"outcomes": out["outcomes"], "receivers": len({c["target"] for c in keep}), "sources_rejected_by_syn": out["unparsed"],
                         "element_level": {k: v for k, v in (eout or {}).items() if k in ("outcomes", "entries", "unparsed")}},
    })
    R.assumptions = ["user callables do not panic (fixed library)", "stack depth and debug-build arithmetic overflow are outside the model"]
    return R.finish()
