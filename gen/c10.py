"""C10 — derive-time validation accepts exactly the well-formed declarations."""
import itertools
import json
import vlib
import declgen
import derivelib

FIELD_ITEMS = {"rename": 'rename = "r"', "default": "default", "with": "with = conv", "skip": "skip", "skip_false": "skip = false",
               "map": "map = f", "and_then": "and_then = g", "multiple": "multiple", "multiple_false": "multiple = false",
               "flatten": "flatten"}


def split_attrs(items, cut):
    """items split into attributes at the positions in `cut` (a bitmask over the gaps)"""
    parts, cur = [], [items[0]] if items else []
    for i, it in enumerate(items[1:]):
        if cut >> i & 1:
            parts.append(cur)
            cur = []
        cur.append(it)
    if cur:
        parts.append(cur)
    return " ".join("#[darling(%s)]" % ", ".join(p) for p in parts)


def exhaustive_field_cases(tier):
    """all ordered pairs and triples of field options x every attribute split, on a named field (and on a variant field)"""
    names = sorted(FIELD_ITEMS)
    out = []
    for k in (1, 2, 3):
        for combo in itertools.permutations(names, k):
            if tier == "quick" and k == 3 and hash(combo) % 7 != 0:
                continue
            items = [FIELD_ITEMS[n] for n in combo]
            for cut in range(1 << (k - 1)):
                attrs = split_attrs(items, cut)
                out.append("struct R { %s a: Vec<u8>, b: u8 }" % attrs)
    # repetitions of the same option
    for n in names:
        out.append("struct R { #[darling(%s, %s)] a: Vec<u8> }" % (FIELD_ITEMS[n], FIELD_ITEMS[n]))
        out.append("struct R { #[darling(%s)] #[darling(%s)] a: Vec<u8> }" % (FIELD_ITEMS[n], FIELD_ITEMS[n]))
    return out


CONTAINER = ["default", 'default = "mk"', 'rename_all = "snake_case"', "map = f", "and_then = g", 'bound = "T: Clone"',
             "allow_unknown_fields", "from_word = w", "from_none = n", "attributes(a)", "forward_attrs", "forward_attrs(doc)", "from_ident",
             "supports(any)", "supports(struct_named)", "supports(named)", "supports(struct_struct_named)", "supports(enum_enum_any)",
             "supports(struct_)", "supports(bogus)"]
VARIANT = ["rename = \"v\"", "skip", "skip = false", "word", "word = false", "word = true"]


def structured_cases(tier):
    out = []
    for a, b in itertools.permutations(CONTAINER, 2):
        out.append("#[darling(%s, %s)] struct R<T> { a: T }" % (a, b))
        if tier == "thorough":
            out.append("#[darling(%s)] #[darling(%s)] struct R<T> { a: T }" % (a, b))
    for a in CONTAINER:
        out.append("#[darling(%s)] struct R<T> { a: T }" % a)
        out.append("#[darling(%s, %s)] struct R<T> { a: T }" % (a, a))
        out.append("#[darling(%s)] struct R;" % a)
        out.append("#[darling(%s)] struct R(u8);" % a)
        out.append("#[darling(%s)] enum R { A, B(u8), C { x: u8 } }" % a)
    # variant option subsets on unit / newtype / struct variants
    for k in range(len(VARIANT) + 1):
        for combo in itertools.combinations(VARIANT, k):
            if tier == "quick" and k > 2:
                continue
            opts = "#[darling(%s)]" % ", ".join(combo) if combo else ""
            out.append("enum R { %s A, #[darling(word)] B, C(u8) }" % opts)
            out.append("enum R { %s A(u8), B }" % opts)
            out.append("enum R { %s A { x: u8 }, B }" % opts)
    # bodies
    out += ["enum R { V { #[darling(flatten)] a: X, #[darling(flatten)] b: Y }, W }", "enum R { V { #[darling(flatten)] a: X, c: u8 }, W { #[darling(flatten)] b: Y } }",
            "enum R { #[darling(word)] A, #[darling(word = false)] B }", "#[darling(from_word = w)] enum R { #[darling(word = false)] A, B }",
            "enum R { #[darling(skip, word)] A, B }",
            "struct R { #[darling(flatten)] a: X, #[darling(flatten)] b: Y }", "struct R { #[darling(flatten)] a: X, b: Y, #[darling(flatten)] c: Z }",
            "enum R { #[darling(word)] A, #[darling(word)] B }", "enum R { #[darling(word = false)] A, #[darling(word = false)] B }",
            "#[darling(from_word = w)] enum R { #[darling(word)] A, B }", "struct R { attrs: Vec<syn::Attribute> }",
            "#[darling(forward_attrs)] struct R { attrs: Vec<syn::Attribute> }", "#[darling(forward_attrs(a))] struct R { #[darling(with = f)] attrs: X }",
            "struct R { #[darling(bogus)] attrs: X }", "struct R { #[darling(with = f, with = g)] data: X }", "struct R { #[darling(skip)] ident: X }",
            # a cross-field / cross-variant rule together with a local error elsewhere in the same body: all must be reported
            'struct R { #[darling(flatten)] a: A, #[darling(flatten)] b: B, #[darling(rename = "x", rename = "y")] c: u8 }',
            "struct R { #[darling(flatten)] a: A, #[darling(bogus)] c: u8, #[darling(flatten)] b: B }",
            "struct R { #[darling(skip = 1)] c: u8, #[darling(flatten)] a: A, #[darling(flatten)] b: B }",
            "enum R { #[darling(word)] A, #[darling(word)] B, #[darling(skip, skip)] C }",
            "enum R { #[darling(bogus)] Z, #[darling(word)] A, #[darling(word)] B }",
            "#[darling(from_word = make)] enum R { #[darling(word)] A, B(u8, u8) }",
            "#[darling(from_word = make)] enum R { #[darling(word)] A, #[darling(rename = 1)] B }",
            "#[darling(from_word = make)] struct R(#[darling(bogus)] u8);",
            "#[darling(attributes(a))] struct R { attrs: Vec<syn::Attribute>, #[darling(flatten, multiple)] x: X }",
            "#[darling(attributes(a))] struct R { #[darling(rename = 1)] y: u8, attrs: Vec<syn::Attribute> }",
            "#[darling(attributes(a))] struct R { attrs: X, #[darling(flatten)] a: A, #[darling(flatten)] b: B, #[darling(with)] c: u8 }",
            "struct R(u8, u8);", "struct R();", "enum R { A(u8, u8) }", "enum R { #[darling(skip)] A(u8, u8), B }", "enum R {}", "union R { a: u8 }"]
    return out


def run(tier, seed, replay=None):
    prop = "C10"
    R = vlib.Run(prop, tier, seed)
    R.proof_coverage(vlib.proof_step(prop))
    raw = []
    if replay:
        c = json.load(open(replay))["case"]
        raw = [{"trait": c["trait"], "src": c["src"]}]
    else:
        for src in exhaustive_field_cases(tier):
            traits = declgen.TRAITS if tier == "thorough" else ["FromMeta", R.rng.choice(declgen.TRAITS[1:])]
            for t in traits:
                raw.append({"trait": t, "src": src if t == "FromMeta" else "#[darling(attributes(a))] " + src})
        for src in structured_cases(tier):
            for t in declgen.TRAITS:
                raw.append({"trait": t, "src": src})
        n = len(raw) + (1500 if tier == "quick" else 30000)
        while len(raw) < n:
            t = R.rng.choice(declgen.TRAITS)
            raw.append({"trait": t, "src": declgen.gen_decl(R.rng, t, R.rng.choice([0.0, 0.3, 0.6]))})
    keep, results, unparsed = derivelib.run_derive_cases(R, raw)
    if keep is None:
        return R.finish()
    terms = [derivelib.c_case_derive(c, results[c["id"]]) for c in keep]
    bad, errors = vlib.coq_eval(prop, derivelib.HEADER_DERIVE, terms, "run_derive holds10 %s", shard=150)

    def key(i):
        """the recorded finding: a container `default` written after `from_ident`, rejected only as a duplicate default"""
        r = results[keep[i]["id"]]
        names = []
        for a in r["echo"]["attrs"]:
            for it in a.get("items", []):
                segs = it.get("path", {}).get("segs", [])
                names.append(segs[0][0] if len(segs) == 1 else "?")
        msgs = [d["msg"] for d in r.get("diags", [])]
        if "from_ident" in names and "default" in names[names.index("from_ident"):] and names.count("default") == 1 \
                and msgs == ["Duplicate field `default`"]:
            return "from_ident-then-default"
        return "derive-validation"

    vlib.decide(R, terms, bad, errors,
                describe=lambda i: "derive(%s) on `%s`: %s" % (keep[i]["trait"], keep[i]["src"], json.dumps(
                    {k: v for k, v in results[keep[i]["id"]].items() if k in ("panic", "diags")})[:400]),
                model_body="Eval vm_compute in (match model_derive c with Accepted _ _ => (true, []) | Rejected es => (false, diags_of es) end, "
                           "well_formed_10 (reparse_of (dc_or c)) (reparse_preds_of (dc_or c)) (dc_trait c) (dc_decl c)).",
                key_fn=key, size_fn=lambda i: len(keep[i]["src"]),
                header=derivelib.HEADER_DERIVE, results=results, cases=keep,
                failed_holds="holds10 (Exec/DeriveCase.v): accepted iff well_formed_10 (the order-free reading of the rules)",
                failed_agree="correspondence agree_derive (Exec/DeriveCase.v) with Options/Resolve.v")
    outcomes = {"impl": 0, "diagnostics": 0, "panic": 0}
    ndiag = {}
    for c in keep:
        r = results[c["id"]]
        outcomes["panic" if "panic" in r else "impl" if r.get("impls") else "diagnostics"] += 1
        k = len(r.get("diags", []))
        ndiag[k] = ndiag.get(k, 0) + 1
    R.coverage.update({
        "evaluations": len(keep),
        "distinct_nontrivial": len({(c["trait"], c["src"]) for c in keep if "darling(" in c["src"]}),
        "rule": "exhaustively all ordered singles, pairs and (quick: a seventh of the) triples of field options x every split over attributes, all ordered "
                "pairs of container options, variant option subsets on unit / newtype / struct variants, body rules (flatten count, word count, "
                "from_word, attrs without forward_attrs, tuple / enum / union bodies), for the six derives; plus random larger declarations with "
                "malformed values; compared on accept/reject and on the diagnostics' positions and messages in order",
        "samples": [keep[i] for i in (0, len(keep) // 3, len(keep) // 2, len(keep) - 1) if i < len(keep)],
        "distribution": {"outcomes": outcomes, "diagnostics_per_rejection": ndiag, "sources_rejected_by_syn": unparsed},
    })
    R.assumptions = ["syn's parsers on string contents (paths, where-predicates) are oracles",
                     "ident_case's rule names are the six documented strings"]
    return R.finish()
