"""C16 — magic fields and body conversion mirror the input element faithfully."""
import json
import vlib
import erecvlib
import elemprop


def gen_cases(rng, tier):
    cases = []
    per = 24 if tier == "quick" else 200
    for x in erecvlib.ERECVS:
        interesting = x["pass"] or x["data"] or x["generics"] or x["fields_magic"]
        for _ in range(per if interesting else per // 4):
            m = rng.choice([0, 0, 0, 0, 1, 2])
            c = erecvlib.make_case(rng, x, m)
            cases.append(c)
        if x["kind"] == "derive_input":
            for kind in ("union", "enum", "struct"):
                attrs, src = erecvlib.gen_derive_input_src(rng, x, 0, body_kind=kind)
                cases.append(dict(erecvlib.make_case(rng, x, 0), src=src))
    return cases


def run(tier, seed, replay=None):
    prop = "C16"
    R = vlib.Run(prop, tier, seed)
    R.proof_coverage(vlib.proof_step(prop))
    if replay:
        raw = [{k: v for k, v in json.load(open(replay))["case"].items() if k != "id"}]
    else:
        raw = gen_cases(R.rng, tier)
    out = elemprop.elem_part(
        R, prop, raw, "holds16", "nontrivial16", key_fn=lambda c, r: "magic-fields",
        failed="holds16 (Exec/ElemCase.v): pass-through members equal the element's parts, data / fields keep kind, style and count, the re-printed "
               "field list reproduces the original")
    if out is None:
        return R.finish()
    keep = out["keep"]
    bodies = {"struct": 0, "enum": 0, "union": 0}
    for c in keep:
        if c["entry"] == "derive_input":
            for k in bodies:
                if (" %s S" % k) in c["src"]:
                    bodies[k] += 1
    R.coverage.update({
        "evaluations": len(keep),
        "distinct_nontrivial": min(out["nontrivial"], len({(c["recv"], c["src"]) for c in keep})),
        "rule": "%d compiled element-level receivers declaring subsets of the magic members (ident, vis, ty, generics as syn::Generics / ast::Generics mirror over a "
                "type-param receiver / darling::Result / WithOriginal, discriminant, bounds, default, attrs plain or with a converter, data as ast::Data<V, F> over variant / "
                "field receivers, (), Ignored, syn types, SpannedValue / WithOriginal wrappers, or with a converter; fields as ast::Fields<F>) x input items: every struct style "
                "with 0-6 fields, enums with 0-6 variants of mixed style and discriminants, unions, generics with lifetimes / types / consts / where-clauses, every visibility "
                "form, nested elements carrying the inner receivers' own attributes (mistake-free or faulty); non-trivial = an Ok value with at least one magic member "
                "(counted in Coq: %d)" % (len(erecvlib.ERECVS), out["nontrivial"]),
        "samples": elemprop.samples(keep),
        "distribution": {"outcomes": out["outcomes"], "entries": out["entries"], "derive_input_bodies": bodies, "sources_rejected_by_syn": out["unparsed"]},
    })
    R.assumptions = ["the parts of the input element (identifier, visibility, type, generics, ... as token strings) are read from syn directly by the harness echo",
                     "token strings are compared as printed by proc-macro2 (invisible groups made visible)"]
    return R.finish()
