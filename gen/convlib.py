"""Shared driver for the library-conversion properties (C12-C15): run conv cases, render, evaluate."""
import json
import vlib
import syntax


def run_conv_property(R, prop, raw_cases, runner, term_fn, describe, key_fn, model_body, failed_holds,
                      harness_features=None, header=None, tag="cases"):
    """raw_cases: dicts with target, src, entry (+ optional group_value, inner).  term_fn(case, result) -> Gallina."""
    binary, log = vlib.build_harness()
    if binary is None:
        R.violation("harness-build", "harness does not build against /repo: " + log[-1500:],
                    {"failed": "cargo build vh-rt", "log": log[-4000:]}, found_input=False)
        return None
    cases = [dict(c, id=i, op="conv", oracles=True) for i, c in enumerate(raw_cases)]
    results = vlib.run_harness(binary, cases)
    terms, keep, unparsed = [], [], 0
    for c in cases:
        r = results.get(c["id"], {})
        if "unparsed" in r:
            unparsed += 1
            continue
        if "error" in r or "harness_panic" in r or "crash" in r or ("inner" in c and "error" in r.get("inner_out", {})):
            R.violation("harness-error", "harness could not run case %s: %s" % (json.dumps(c), json.dumps(r)[:400]),
                        {"case": c, "result": r, "failed": "harness observation"}, found_input=False)
            continue
        try:
            terms.append(term_fn(c, r))
            keep.append(c)
        except ValueError as e:
            R.violation("render-error", "cannot render case %s: %s" % (json.dumps(c), e),
                        {"case": c, "failed": "renderer"}, found_input=False)
    header = header or syntax.HEADER_CONV
    bad, errors = vlib.coq_eval(prop, header, terms, runner, shard=120, tag=tag)
    vlib.decide(R, terms, bad, errors,
                describe=lambda i: describe(keep[i]),
                model_body=model_body,
                key_fn=lambda i: key_fn(keep[i], results[keep[i]["id"]]),
                size_fn=lambda i: len(keep[i]["src"]) + 10 * keep[i].get("group_value", 0),
                header=header, results=results, cases=keep,
                failed_holds=failed_holds,
                failed_agree="correspondence agree_conv (Exec/ConvCase.v)")
    outcomes = {"ok": 0, "err": 0, "panic": 0, "none": 0}
    for c in keep:
        for k in outcomes:
            if k in results[c["id"]]:
                outcomes[k] += 1
    return {"keep": keep, "results": results, "unparsed": unparsed, "outcomes": outcomes}
