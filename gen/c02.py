"""C02 — every mistake in the input is reported, exactly once, in a single pass."""
import json
import re
import vlib
import recvlib
import convlib
import recvprop


def gen_cases(rng, tier):
    cases = []
    per = 28 if tier == "quick" else 120
    for x in recvlib.RECVS:
        if x["trait"] != "FromMeta":
            continue
        names = recvlib.all_names(x)
        for _ in range(per):
            src = recvlib.gen_recv_item(rng, x, "x") or "x()"
            k = rng.choice([0, 1, 1, 1, 2, 2, 3, 4, 6, 8])
            src = recvlib.inject_mistakes(rng, src, k)
            cases.append({"target": x["name"], "src": src, "entry": "meta", "injected": k})
    return recvprop.all_with_pairs(recvprop.with_groups(rng, cases))


def run(tier, seed, replay=None):
    prop = "C02"
    R = vlib.Run(prop, tier, seed)
    R.proof_coverage(vlib.proof_step(prop))
    if replay:
        c = json.load(open(replay))["case"]
        raw = [{k: c[k] for k in ("target", "src", "entry", "pairs", "injected", "group_all") if k in c}]
    else:
        raw = gen_cases(R.rng, tier)
    out = convlib.run_conv_property(
        R, prop, raw, "run_recv_counted holds02 nontrivial02 %s",
        lambda c, r: recvlib.c_case_recv(recvlib.BY_NAME[c["target"]], c, r),
        describe=lambda c: "%s on %s" % (c["target"], recvprop.shown(c)),
        key_fn=lambda c, r: "mistake-reporting",
        model_body="Eval vm_compute in (model_recv c, expected_of c, mistakes_of c).",
        failed_holds="holds02 (Exec/RecvCase.v): fails iff the per-field specification finds a mistake; leaf count = number of mistakes",
        header=recvlib.HEADER_RECV)
    if out is None:
        return R.finish()
    keep = out["keep"]
    inj = {}
    leaves = {}
    for c in keep:
        inj[c["injected"]] = inj.get(c["injected"], 0) + 1
        r = out["results"][c["id"]]
        if "err" in r:
            n = r["err"]["len"]
            leaves[n] = leaves.get(n, 0) + 1
    R.coverage.update({
        "evaluations": len(keep),
        "distinct_nontrivial": min(vlib.LAST_COUNT, len({(c["target"], c["src"]) for c in keep})),
        "rule": "corpus receivers x a mistake-free input with 0-8 injected mistakes (unknown names, repeated items, literal items, dropped items, bad "
                "values, wrong forms, enum arity) at random positions and depths (nested receivers, enum variants, map values); non-trivial = the "
                "specification finds at least one mistake (counted inside Coq: %d of %d)" % (vlib.LAST_COUNT, len(keep)),
        "samples": [keep[i] for i in (0, len(keep) // 3, len(keep) // 2, len(keep) - 1) if i < len(keep)],
        "distribution": {"outcomes": out["outcomes"], "injected_mistakes": inj, "error_leaves_observed": leaves,
                         "receivers": len({c["target"] for c in keep})},
    })
    R.assumptions = ["'a value the target type rejects' for library leaf types is the C11-C14 models' rejection",
                     "the body layer (from_derive_input's data / fields) is checked by C16"]
    return R.finish()
