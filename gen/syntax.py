"""Renderers from the harness's echo / observations into Gallina terms of Base/Syntax.v, plus
shared generators of attribute source text."""
from vlib import cstr, cN, cZ, cbool, clist, copt, cspan, cospan, capp
import errgen


# ---------------------------------------------------------------- echo -> Gallina
def c_info(i):
    return "(mkInfo %s %s)" % (cspan(i["span"]), cstr(i["toks"]))


def c_path(p):
    return "(mkPath %s %s %s)" % (c_info(p["info"]), cbool(p["leading"]),
                                  clist(["(%s, %s)" % (cstr(a), cstr(b)) for a, b in p["segs"]]))


def c_lit(l):
    t = l["t"]
    if t == "bool":
        return capp("LBool", cbool(l["v"]))
    if t == "str":
        return capp("LStr", cstr(l["v"]))
    if t == "char":
        return capp("LChar", cN(l["v"]))
    if t == "int":
        return capp("LInt", cstr(l["digits"]), cstr(l["suffix"]))
    if t == "float":
        return capp("LFloat", cstr(l["digits"]), cstr(l["suffix"]))
    return {"byte": "LByte", "bytestr": "LByteStr", "cstr": "LCStr", "verbatim": "LVerbatim"}[t]


def c_expr(e):
    t = e["t"]
    if t == "lit":
        return capp("ELit", c_info(e["info"]), c_lit(e["lit"]))
    if t == "group":
        return capp("EGroup", c_info(e["info"]), c_expr(e["e"]))
    if t == "path":
        return capp("EPath", c_info(e["info"]), c_path(e["path"]))
    if t == "array":
        return capp("EArray", c_info(e["info"]), clist([c_expr(x) for x in e["es"]]))
    if t == "neg":
        return capp("ENeg", c_info(e["info"]), c_lit(e["lit"]))
    return capp("EOther", c_info(e["info"]), cstr(e["kind"]))


def c_nested(n):
    t = n["t"]
    if t == "lit":
        return capp("NLit", c_info(n["info"]), c_lit(n["lit"]))
    if t == "path":
        return capp("NPath", c_info(n["info"]), c_path(n["path"]))
    if t == "nv":
        return capp("NNameValue", c_info(n["info"]), c_path(n["path"]), c_expr(n["e"]))
    if t == "list":
        return capp("NList", c_info(n["info"]), c_path(n["path"]), c_info(n["ti"]),
                    clist([c_nested(x) for x in n["items"]]))
    if t == "badlist":
        return capp("NBadList", c_info(n["info"]), c_path(n["path"]), c_info(n["ti"]), cspan(n["es"]),
                    cstr(n["emsg"]))
    raise ValueError(t)


def nested_stats(n, st=None, depth=0):
    st = st if st is not None else {"nodes": 0, "depth": 0, "forms": {}}
    st["nodes"] += 1
    st["depth"] = max(st["depth"], depth)
    st["forms"][n["t"]] = st["forms"].get(n["t"], 0) + 1
    for x in n.get("items", []):
        nested_stats(x, st, depth + 1)
    return st


# ---------------------------------------------------------------- values / observations -> Gallina
def c_value(v):
    t = v["t"]
    if t == "unit":
        return "VUnit"
    if t == "bool":
        return capp("VBool", cbool(v["v"]))
    if t == "int":
        return capp("VInt", cZ(int(v["v"])))
    if t == "char":
        return capp("VChar", cN(v["v"]))
    if t == "str":
        return capp("VStr", cstr(v["v"]))
    if t == "float":
        return capp("VFloat", cN(v["v"]))
    if t == "toks":
        return capp("VToks", cstr(v["v"]))
    if t == "none":
        return "VNone"
    if t == "some":
        return capp("VSome", c_value(v["v"]))
    if t == "ptr":
        return capp("VPtr", c_value(v["v"]))
    if t == "res_ok":
        return capp("VResOk", c_value(v["v"]))
    if t == "res_err":
        return capp("VResErrObs", errgen.coq_obs(v["e"]))
    if t == "meta_ok":
        return capp("VMetaOk", c_value(v["v"]))
    if t == "meta_err":
        return capp("VMetaErr", cstr(v["toks"]))
    if t == "inherit":
        return "VInherit"
    if t == "explicit":
        return capp("VExplicit", c_value(v["v"]))
    if t == "spanned":
        return capp("VSpanned", c_value(v["v"]), cspan(v["span"]))
    if t == "with_orig":
        return capp("VWithOrig", c_value(v["v"]), cstr(v["toks"]))
    if t == "flag":
        return capp("VFlag", cospan(v["span"]))
    if t == "list":
        return capp("VList", clist([c_value(x) for x in v["vs"]]))
    if t == "map":
        return capp("VMap", clist(["(%s, %s)" % (cstr(k), c_value(x)) for k, x in v["kvs"]]))
    if t == "struct":
        return capp("VStruct", clist(["(%s, %s)" % (cstr(k), c_value(x)) for k, x in v["fs"]]))
    if t == "variant":
        return capp("VVariant", cstr(v["name"]), clist(["(%s, %s)" % (cstr(k), c_value(x)) for k, x in v["fs"]]))
    raise ValueError(t)


def c_conv_obs(r):
    if "panic" in r:
        return capp("CPanic", cstr(r["panic"]))
    if "ok" in r:
        return capp("COk", c_value(r["ok"]))
    if "err" in r:
        return capp("CErr", errgen.coq_obs(r["err"]))
    if "none" in r:
        return capp("CNone", copt(r["none"], c_value))
    return capp("CPanic", cstr("<harness: %s>" % str(r)[:200]))


def c_pf(rows):
    return clist(["(%s, %s, %s)" % (cstr(s), copt(a, cN), copt(b, cN)) for s, a, b in rows])


# ---------------------------------------------------------------- targets
INT_TARGETS = {}
for _signed in (False, True):
    for _bits, _nm in ((8, "8"), (16, "16"), (32, "32"), (64, "64"), (128, "128"), (64, "size")):
        _p = ("i" if _signed else "u") + _nm
        INT_TARGETS[_p] = (_signed, _bits, False)
        INT_TARGETS["NonZero" + _p[0].upper() + _p[1:]] = (_signed, _bits, True)


def int_bounds(name):
    s, b, nz = INT_TARGETS[name]
    return (-(1 << (b - 1)), (1 << (b - 1)) - 1) if s else (0, (1 << b) - 1)


def split_generic(name):
    """'Wrapper<A,B>' -> ('Wrapper', ['A', 'B']) respecting nesting."""
    i = name.find("<")
    if i < 0 or not name.endswith(">"):
        return name, []
    head, body = name[:i], name[i + 1:-1]
    args, depth, cur = [], 0, ""
    for ch in body:
        if ch == "<":
            depth += 1
        if ch == ">":
            depth -= 1
        if ch == "," and depth == 0:
            args.append(cur)
            cur = ""
        else:
            cur += ch
    args.append(cur)
    return head, args


WRAPPERS = {"Option": ("TOption", "WOption"), "Box": ("TPtr", "WPtr"), "Rc": ("TPtr", "WPtr"), "Arc": ("TPtr", "WPtr"),
            "RefCell": ("TPtr", "WPtr"), "SpannedValue": ("TSpanned", "WSpanned"),
            "WithOriginal": ("TWithOriginal", "WWithOriginal"), "Override": ("TOverride", "WOverride"),
            "darling::Result": ("TResult", "WResult"), "Result": ("TResultMeta", "WResultMeta")}
SYN_PARSE = ["Type", "TypeArray", "TypeBareFn", "TypeImplTrait", "TypeInfer", "TypeMacro", "TypeNever", "TypeParen", "TypePath",
             "TypePtr", "TypeReference", "TypeSlice", "TypeTraitObject", "TypeTuple", "Visibility", "WhereClause"]
LIT_WANT = {"Lit": "", "LitInt": "int", "LitFloat": "float", "LitStr": "string", "LitByte": "byte", "LitByteStr": "byte string",
            "LitChar": "char", "LitBool": "bool"}


def wrapper_of(name):
    """(wrapper constructor for holds12, inner type name) or None."""
    head, args = split_generic(name.replace(" ", ""))
    if head in WRAPPERS and args:
        return WRAPPERS[head][1], args[0]
    return None


def c_target(name):
    name = name.replace(" ", "")
    simple = {"()": "TUnit", "bool": "TBool", "AtomicBool": "TAtomicBool", "char": "TChar", "String": "TString",
              "PathBuf": "TPathBuf", "f32": "(TFloat false)", "f64": "(TFloat true)",
              "syn::Expr": "TExpr", "syn::Path": "TPath", "syn::Ident": "TIdent", "IdentString": "TIdentString",
              "helper:preserve": "(THelper false)", "helper:parse": "(THelper true)",
              "Callable": "TCallable", "syn::Meta": "TMeta", "PathList": "TPathList", "Flag": "TFlag",
              "Vec<syn::WherePredicate>": "TWherePreds",
              "syn::ExprArray": '(TExprType GExprArray "array")', "syn::ExprPath": '(TExprType GExprPath "path")',
              "syn::ExprRange": '(TExprType GExprRange "range")',
              "Punctuated<syn::Path,Comma>": '(TPunct "Path")', "Punctuated<syn::Ident,Comma>": '(TPunct "Ident")'}
    if name in simple:
        return simple[name]
    if name in INT_TARGETS:
        s, b, nz = INT_TARGETS[name]
        return "(TInt (mkIty %s %s %s))" % (cbool(s), cN(b), cbool(nz))
    if name.startswith("syn::") and name[5:] in SYN_PARSE:
        return '(TSynParse (GSyn "%s"))' % name[5:]
    if name.startswith("syn::") and name[5:] in LIT_WANT:
        return '(TLit %s)' % cstr(LIT_WANT[name[5:]])
    head, args = split_generic(name)
    if head == "Vec" and args[0].startswith("syn::") and args[0][5:] in LIT_WANT:
        return '(TVecLit %s)' % cstr(LIT_WANT[args[0][5:]])
    if head == "Vec" and args[0] in INT_TARGETS:
        s, b, nz = INT_TARGETS[args[0]]
        return "(TNumArr (mkIty %s %s %s))" % (cbool(s), cN(b), cbool(nz))
    if head in WRAPPERS:
        return "(%s %s)" % (WRAPPERS[head][0], c_target(args[0]))
    if head in ("HashMap", "BTreeMap"):
        k = {"String": "KString", "syn::Ident": "KIdent", "syn::Path": "KPath"}[args[0]]
        return "(TMap %s %s)" % (k, c_target(args[1]))
    if head.startswith("P") and head[1:].isdigit() and args:
        m = int(head[1:])
        bits = " ".join(cbool(bool(m >> b & 1)) for b in range(7))
        return "(TProbe (probe_fm %s %s))" % (bits, cN(int(args[0])))
    raise ValueError("no model target for " + name)


def c_grammar(g):
    if g.startswith("syn:"):
        return '(GSyn "%s")' % g[4:]
    if g.startswith("punct:"):
        return '(GPunct "%s")' % g[6:]
    return "G" + g


def c_oracles(o):
    if not o:
        return "{| r_parse := []; r_arr := []; r_preds := [] |}"
    parse = clist(["(%s, %s, %s)" % (c_grammar(g), cstr(s), copt(t, cstr)) for g, s, t in o["parse"]])
    arr = clist(["(%s, %s)" % (cstr(s), copt(e, c_expr)) for s, e in o["arr"]])
    preds = clist(["(%s, %s)" % (cstr(s), copt(ps, lambda l: clist([cstr(x) for x in l]))) for s, ps in o["preds"]])
    return "{| r_parse := %s; r_arr := %s; r_preds := %s |}" % (parse, arr, preds)


HEADER_CONV = """From DarlingModel Require Import Base.Prelude Base.Syntax Conv.Targets Exec.ErrObs Exec.ConvCase.
Local Open Scope string_scope."""


def c_case_conv(target, entry, result):
    echo = result.get("echo")
    inp = c_nested(echo) if echo else '(NPath (mkInfo (0%N,0%N,0%N,0%N) "") (mkPath (mkInfo (0%N,0%N,0%N,0%N) "") false []))'
    ent = {"meta": "EMeta", "nested": "ENested", "none": "ENone"}[entry]
    return "{| k_target := %s; k_pf := %s; k_or := %s; k_entry := %s; k_input := %s; k_obs := %s |}" % (
        c_target(target), c_pf(result.get("pf", [])), c_oracles(result.get("or")), ent, inp, c_conv_obs(result))
