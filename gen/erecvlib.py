"""Element-level receivers on the driver side: Gallina rendering of receivers (Run/Outer.v) and of parsed input elements (from the
harness echo), generation of input items (source text of a DeriveInput) directed by the receiver, canonical re-partition (C08)."""
import copy
import json
import os
import re

import recvlib
import syntax
from vlib import cstr, cbool, clist, copt, cN, capp, cspan

ROOT = os.path.dirname(os.path.dirname(os.path.abspath(__file__)))
ECORPUS = json.load(open(os.path.join(ROOT, "gen", "ecorpus.json")))
ERECVS = ECORPUS["receivers"]
EBY = {x["name"]: x for x in ERECVS}
ECONSTS = ECORPUS["consts"]

HEADER_ELEM = """From DarlingModel Require Import Base.Prelude Base.Syntax Err.ErrTree Conv.Targets Run.Recv Run.Outer Shape.Shape Exec.ErrObs Exec.ConvCase Exec.RecvCase Exec.ElemCase.
Local Open Scope string_scope."""


# ---------------------------------------------------------------- receivers
def c_obase(x):
    xx = x
    if x["from_ident"]:
        xx = copy.deepcopy(x)
        xx["cinfo"]["default"] = ["from_ident"]
    cinfo = recvlib.c_cinfo(x)
    fields = recvlib.c_fields(x["fields"], xx)
    fwd = "None" if x["fwd"] is None else "(Some None)" if x["fwd"] == "all" else "(Some (Some %s))" % clist([cstr(n) for n in x["fwd"]])
    attrs = "None" if not x["attrs_field"] else "(Some None)" if x["attrs_field"] == "plain" else "(Some (Some %s))" % cstr(x["attrs_field"])
    return "(mkOB %s %s %s %s %s %s)" % (cinfo, fields, clist([cstr(n) for n in x["attr_names"]]), fwd, attrs, cbool(x["from_ident"]))


def c_pass(x):
    return clist([cstr(p) for p in x["pass"]])


def c_fconv(f):
    if isinstance(f, dict):
        if "spanned" in f:
            return "(FcSpanned %s)" % c_fconv(f["spanned"])
        return "(FcWithOrig %s)" % c_fconv(f["with_orig"])
    simple = {"unit": "FcUnit", "ignored": "FcUnit", "field": "FcField", "type": "FcType", "vis": "FcVis", "attrs": "FcAttrs"}
    if f in simple:
        return simple[f]
    x = EBY[f]
    return "(FcRecv %s %s)" % (c_obase(x), c_pass(x))


def c_data_shape(words):
    w = set(words)
    return "(mkDS %s %s %s %s %s)" % (cbool("newtype" in w), cbool("named" in w), cbool("tuple" in w), cbool("unit" in w), cbool("any" in w))


def c_vconv(v):
    if isinstance(v, dict):
        if "spanned" in v:
            return "(VcSpanned %s)" % c_vconv(v["spanned"])
        return "(VcWithOrig %s)" % c_vconv(v["with_orig"])
    simple = {"unit": "VcUnit", "ignored": "VcUnit", "variant": "VcVariant", "ident": "VcIdent", "attrs": "VcAttrs"}
    if v in simple:
        return simple[v]
    x = EBY[v]
    return "(VcRecv %s %s %s %s)" % (c_obase(x), c_pass(x), copt(x["fields_magic"], c_fconv), copt(x["supports"], c_data_shape))


def c_tpconv(t):
    simple = {"unit": "TpUnit", "ignored": "TpUnit", "syn": "TpSyn", "ident": "TpIdent", "attrs": "TpAttrs"}
    if t in simple:
        return simple[t]
    x = EBY[t]
    return "(TpRecv %s %s)" % (c_obase(x), c_pass(x))


def c_gconv(g):
    if isinstance(g, dict):
        if "mirror" in g:
            return "(GcMirror %s)" % c_tpconv(g["mirror"])
        if "result" in g:
            return "(GcResult %s)" % c_gconv(g["result"])
        return "(GcWithOrig %s)" % c_gconv(g["with_orig"])
    return {"syn": "GcSyn", "unit": "GcUnit"}[g]


def c_di_shapes(words):
    st = [w[len("struct_"):] for w in words if w.startswith("struct_")]
    en = [w[len("enum_"):] for w in words if w.startswith("enum_")]
    return "(mkDI %s %s %s)" % (c_data_shape(en), c_data_shape(st), cbool("any" in words))


def c_erecv(x):
    k = x["kind"]
    if k == "field":
        return "(ERField %s)" % c_fconv(x["name"])
    if k == "variant":
        return "(ERVariant %s)" % c_vconv(x["name"])
    if k == "type_param":
        return "(ERTypeParam %s)" % c_tpconv(x["name"])
    if k == "attributes":
        return "(ERAttrs %s)" % c_obase(x)
    data = "None"
    if x["data"]:
        data = "(Some (DcWith %s))" % cstr(x["data"]["with"]) if "with" in x["data"] else \
               "(Some (DcData %s %s))" % (c_vconv(x["data"]["data"][0]), c_fconv(x["data"]["data"][1]))
    return "(ERDerive (mkDR %s %s %s %s %s))" % (c_obase(x), c_pass(x), copt(x["generics"], c_gconv), data, copt(x["supports"], c_di_shapes))


def sub_erecvs(x, acc=None):
    """element-level receivers reachable from x (itself included)"""
    acc = acc if acc is not None else []
    if x["name"] in [a["name"] for a in acc]:
        return acc
    acc.append(x)

    def walk(c):
        if isinstance(c, dict):
            for v in c.values():
                walk(v)
        elif isinstance(c, list):
            for v in c:
                walk(v)
        elif isinstance(c, str) and c in EBY:
            sub_erecvs(EBY[c], acc)
    walk(x["fields_magic"])
    walk(x["data"])
    walk(x["generics"])
    return acc


def c_econsts(x):
    """the constant user functions (container defaults, from_word / from_none of nested FromMeta receivers, From<Ident>) reachable from x"""
    names = set()
    out = []
    for e in sub_erecvs(x):
        recvlib.const_names({"cinfo": {"from_word": None, "from_none": None, "default": None}, "fields": e["fields"]}, names)
        for cname, k in ECONSTS.items():
            if k["recv"] != e["name"]:
                continue
            kvs = []
            for (ident, val), f in zip(k["fields"], e["fields"]):
                if val is None:
                    v = "(VList [])" if f["multiple"] else "(default_of %s)" % recvlib.c_ty(f["ty"])
                else:
                    v = syntax.c_value(val)
                kvs.append("(%s, %s)" % (cstr(ident), v))
            out.append("(%s, (VStruct %s))" % (cstr(cname), clist(kvs)))
    out += [recvlib.c_const(n) for n in sorted(names)]
    return clist(out)


def all_names(x):
    acc = set()
    for e in sub_erecvs(x):
        recvlib.all_names({"fields": e["fields"]}, acc)
    return acc


# ---------------------------------------------------------------- inputs (from the harness echo)
def c_attr(a):
    f = a["form"]
    if f["t"] == "word":
        form = "AWord"
    elif f["t"] == "nv":
        form = "(ANameValue %s)" % syntax.c_info(f["nv"])
    elif f["t"] == "list":
        form = "(AList %s %s)" % (syntax.c_info(f["ti"]), clist([syntax.c_nested(n) for n in f["items"]]))
    else:
        form = "(ABadList %s %s)" % (cspan(f["es"]), cstr(f["emsg"]))
    return "(mkAttr %s %s %s)" % (syntax.c_info(a["info"]), syntax.c_path(a["path"]), form)


def c_attrs(l):
    return clist([c_attr(a) for a in l])


def c_style(s):
    return {"named": "StNamed", "tuple": "StTuple", "unit": "StUnit"}[s]


def c_felem(f):
    return "(mkFE %s %s %s %s %s)" % (syntax.c_info(f["info"]), c_attrs(f["attrs"]), copt(f["ident"], cstr), cstr(f["vis"]), cstr(f["ty"]))


def c_velem(v):
    return "(mkVE %s %s %s %s %s %s)" % (syntax.c_info(v["info"]), c_attrs(v["attrs"]), cstr(v["ident"]), copt(v["discr"], cstr),
                                         c_style(v["style"]), clist([c_felem(f) for f in v["fields"]]))


def c_gparam(p):
    if p["t"] == "type":
        return "(GpType %s %s %s %s %s)" % (syntax.c_info(p["info"]), c_attrs(p["attrs"]), cstr(p["ident"]),
                                            clist([cstr(b) for b in p["bounds"]]), copt(p["default"], cstr))
    return "(%s %s)" % ("GpLifetime" if p["t"] == "lifetime" else "GpConst", cstr(p["toks"]))


def c_generics(g):
    return "(mkGen %s %s %s)" % (clist([c_gparam(p) for p in g["params"]]), cstr(g["params_toks"]), copt(g["where"], cstr))


def c_dinput(d):
    b = d["body"]
    if b["t"] == "struct":
        body = "(DStruct %s %s)" % (c_style(b["style"]), clist([c_felem(f) for f in b["fields"]]))
    elif b["t"] == "enum":
        body = "(DEnum %s)" % clist([c_velem(v) for v in b["variants"]])
    else:
        body = "DUnion"
    return "(mkDIn %s %s %s %s %s %s)" % (syntax.c_info(d["info"]), c_attrs(d["attrs"]), cstr(d["ident"]), cstr(d["vis"]),
                                          c_generics(d["generics"]), body)


def c_einput(echo):
    t, e = echo["t"], echo["e"]
    if t == "field":
        return "(EIField %s)" % c_felem(e)
    if t == "variant":
        return "(EIVariant %s)" % c_velem(e)
    if t == "type_param":
        return "(EITypeParam %s)" % c_gparam(e)
    if t == "derive_input":
        return "(EIDerive %s)" % c_dinput(e)
    return "(EIAttrs %s)" % c_attrs(e)


def fields_toks_of(echo):
    t, e = echo["t"], echo["e"]
    if t == "variant":
        return e.get("fields_toks")
    if t == "derive_input" and e["body"]["t"] == "struct":
        return e["body"].get("fields_toks")
    return None


def c_case_elem(x, case, r, sugg=True):
    sim = clist(["(%s, %s, %s)" % (cstr(a), cstr(b), cN(bits)) for (a, b), bits in zip(case.get("pairs", []), r.get("sim", []))])
    twin = r.get("twin")
    twin_c = "None"

    def own_attrs(echo):
        t, e = echo["t"], echo["e"]
        return e if t == "attributes" else e.get("attrs", [])

    def malformed(echo):
        return any(a["form"]["t"] in ("badlist", "nv") and a["path"]["info"]["toks"].replace(" ", "").replace("r#", "") in x["attr_names"] for a in own_attrs(echo))     # `r#final` is the name `final`

    if twin is not None and "unparsed" not in twin and "error" not in twin and not malformed(r["echo"]) and not malformed(twin["echo"]):
        twin_c = "(Some %s)" % syntax.c_conv_obs(twin)
    rp = (r.get("extra") or {}).get("reprint")
    sub = r.get("sub_out")
    sub_c = "None"
    if sub is not None and not any("error" in o for o in sub):
        sub_c = "(Some %s)" % clist([syntax.c_conv_obs(o) for o in sub])
    return ("{| ce_recv := %s; ce_consts := %s; ce_pf := %s; ce_or := %s; ce_sugg := %s; ce_sim := %s; ce_input := %s; ce_obs := %s; "
            "ce_twin := %s; ce_reprint := %s; ce_fields_toks := %s; ce_sub := %s |}" % (
                c_erecv(x), c_econsts(x), syntax.c_pf(r.get("pf", [])), syntax.c_oracles(r.get("or")), cbool(sugg), sim,
                c_einput(r["echo"]), syntax.c_conv_obs(r), twin_c,
                copt(rp if isinstance(rp, str) else None, cstr), copt(fields_toks_of(r["echo"]), cstr), sub_c))


# ---------------------------------------------------------------- input generation
NOISE = ['#[doc = "a doc"]', "/** a doc comment */", "#[cfg(test)]", "#[derive(Clone)]", "#[other(a b c !)]", "#[my::tool(x)]", "#[keep]",
         "#[keep(1, 2)]", "#[allow(dead_code)]", '#[serde(rename = "x")]', "#[x(y = 1)]", "#[my::attr::deep(q)]", "#[doc(hidden)]",
         "#[inline]", "#[my::tool]", '#[path = "p"]', "#[r#override]", "#[r#override(x = 1)]", "#[r#final(label = 1)]", "#[::a(flag)]", "#[::keep]", "#[::x(q = 1)]", "#[::my::attr(z)]", "#[::doc(hidden)]"]


def own_items(rng, x, mistakes=0):
    """items for the receiver's own ordinary fields (mistake-free unless `mistakes`), as source strings"""
    cd = bool(x["cinfo"]["default"]) or x["from_ident"]
    fields = [dict(f, default=f["default"] or (["inherit"] if cd else None)) for f in x["fields"]]
    items = recvlib.gen_items(rng, fields, 0)
    if items is None:
        items = []
    if mistakes:
        src = recvlib.inject_mistakes(rng, "w(%s)" % ", ".join(items), mistakes)
        items = split_top(src[2:-1]) if src.startswith("w(") and src.endswith(")") else items
    return items


def split_top(s):
    out, depth, cur = [], 0, ""
    for ch in s:
        if ch in "([{":
            depth += 1
        if ch in ")]}":
            depth -= 1
        if ch == "," and depth == 0:
            if cur.strip():
                out.append(cur.strip())
            cur = ""
        else:
            cur += ch
    if cur.strip():
        out.append(cur.strip())
    return out


def attr_list(rng, x, mistakes=0, noise=True, odd_forms=True):
    """the attributes of one element for receiver x, as a list of dicts {"kind": selected|noise|odd, "name", "items", "text"}"""
    names = x["attr_names"]
    out = []
    if names:
        items = own_items(rng, x, mistakes)
        k = rng.choice([1, 1, 2, 2, 3, 4]) if items else rng.choice([0, 1])
        cuts = sorted(rng.sample(range(len(items) + 1), min(k - 1, len(items) + 1))) if k > 1 else []
        chunks, prev = [], 0
        for c in cuts + [len(items)]:
            chunks.append(items[prev:c])
            prev = c
        if k == 0:
            chunks = []
        for ch in chunks:
            n = rng.choice(names)
            out.append({"kind": "selected", "name": n, "items": ch, "text": "#[%s(%s)]" % (recvlib.w(n), ", ".join(ch)) if (ch or rng.random() < 0.5) else "#[%s]" % recvlib.w(n)})
        if odd_forms and rng.random() < 0.25:
            n = rng.choice(names)
            out.insert(rng.randint(0, len(out)), {"kind": "selected", "name": n, "items": [], "text": rng.choice(["#[%s]" % recvlib.w(n), "#[%s()]" % recvlib.w(n)])})
        if odd_forms and rng.random() < 0.12:
            n = rng.choice(names)
            out.insert(rng.randint(0, len(out)), {"kind": "odd", "name": n, "items": None,
                                                  "text": rng.choice(['#[%s = "v"]' % recvlib.w(n), "#[%s(a b)]" % recvlib.w(n), "#[%s(=)]" % recvlib.w(n), "#[%s = 3]" % recvlib.w(n)])})
    if noise:
        for _ in range(rng.choice([0, 1, 1, 2, 3, 4])):
            out.insert(rng.randint(0, len(out)), {"kind": "noise", "text": rng.choice(NOISE)})
    return out


def attr_name_of(text):
    m = re.match(r"#\[\s*([A-Za-z_:0-9]+)", text.replace("r#", ""))      # a leading `::` is kept; `r#final` is the name `final`
    if text.startswith("/**"):
        return "doc"
    return m.group(1).replace(" ", "") if m else ""


def is_forwarded(x, a):
    if a["kind"] != "noise" or not x["attrs_field"] or x["fwd"] is None:
        return False
    n = attr_name_of(a["text"])
    if n in x["attr_names"]:
        return False
    return x["fwd"] == "all" or n in x["fwd"]


def canonical(x, attrs):
    """the canonical re-partition: all selected items in ONE attribute (at the position of the first selected one), forwarded attributes
    kept in order, everything else dropped.  None when an odd-form selected attribute is present (its error's position matters)."""
    if any(a["kind"] == "odd" for a in attrs):
        return None
    if any(a["kind"] == "noise" and attr_name_of(a["text"]) in x["attr_names"] for a in attrs):
        return None
    sel = [a for a in attrs if a["kind"] == "selected"]
    items = [it for a in sel for it in a["items"]]
    out, placed = [], False
    for a in attrs:
        if a["kind"] == "selected":
            if not placed and items:
                out.append({"kind": "selected", "name": x["attr_names"][0], "items": items, "text": "#[%s(%s)]" % (recvlib.w(x["attr_names"][0]), ", ".join(items))})
                placed = True
        elif is_forwarded(x, a):
            out.append(a)
    return out


def texts(attrs):
    return " ".join(a["text"] for a in attrs)


def gen_field_src(rng, f, mistakes=0, named=True, fixed_attrs=None):
    """one field `attrs vis name: ty` for field converter f"""
    x = EBY.get(f) if isinstance(f, str) else None
    while isinstance(f, dict):
        f = list(f.values())[0]
        x = EBY.get(f) if isinstance(f, str) else None
    attrs = fixed_attrs if fixed_attrs is not None else (attr_list(rng, x, mistakes) if x else [{"kind": "noise", "text": t} for t in rng.sample(NOISE, rng.choice([0, 1, 2]))])
    vis = rng.choice(["", "", "pub ", "pub(crate) ", "pub(in crate::a) ", "pub(super) "])
    # (a parenthesised type is a different `syn::Type` from what it encloses: the `ty` member must keep the parentheses)
    ty = rng.choice(["u8", "Vec<String>", "Option<T>", "&'a str", "[u8; N]", "(u8, T)", "Box<dyn Fn(u8) -> T>", "std::collections::HashMap<String, T>",
                     "(Option<T>)", "(dyn Fn(u8) -> u8 + Send)", "((u8))"])
    name = rng.choice(["first", "second", "value", "r#type", "x"])
    return attrs, "%s %s%s%s" % (texts(attrs), vis, (name + ": ") if named else "", ty)


def gen_fields_src(rng, f, mistakes=0, style=None, n=None):
    style = style or rng.choice(["named", "named", "tuple", "unit"])
    if style == "unit":
        return "unit", ""
    n = rng.choice([0, 1, 2, 3, 4, 6]) if n is None else n
    fs = []
    names = ["alpha", "beta", "gamma", "delta", "eps", "zeta", "eta"]
    for i in range(n):
        _, src = gen_field_src(rng, f, mistakes if rng.random() < 0.5 else 0, named=(style == "named"))
        if style == "named":
            src = re.sub(r"(first|second|value|r#type|x): ", names[i] + ": ", src, count=1)
        fs.append(src)
    return style, ("{ %s }" % ", ".join(fs)) if style == "named" else ("( %s )" % ", ".join(fs))


def gen_variant_src(rng, v, mistakes=0, fixed_attrs=None, ident=None):
    x = EBY.get(v) if isinstance(v, str) else None
    while isinstance(v, dict):
        v = list(v.values())[0]
        x = EBY.get(v) if isinstance(v, str) else None
    attrs = fixed_attrs if fixed_attrs is not None else (attr_list(rng, x, mistakes) if x else [{"kind": "noise", "text": t} for t in rng.sample(NOISE, rng.choice([0, 1]))])
    fm = x["fields_magic"] if x else None
    style, body = gen_fields_src(rng, fm or "unit", mistakes)
    ident = ident or rng.choice(["First", "Second", "Other", "Zed"])
    discr = " = %s" % rng.choice(["3", "1 + 2", "0x10", "-1"]) if style == "unit" and rng.random() < 0.5 else ""
    return attrs, "%s %s %s%s" % (texts(attrs), ident, body if style != "unit" else "", discr)


GENERICS = ["", "", "<T>", "<'a, T: Clone>", "<T: Clone + Send, U = u8>", "<'a, 'b: 'a, T, const N: usize>", "<T: ?Sized>"]
WHERES = ["", "", " where T: Copy", " where T: Copy, T: Send + 'static"]


def gen_type_param_src(rng, t, mistakes=0, fixed_attrs=None):
    x = EBY.get(t) if isinstance(t, str) else None
    attrs = fixed_attrs if fixed_attrs is not None else (attr_list(rng, x, mistakes, noise=False) if x else [])
    return attrs, "%s T%s%s" % (texts(attrs), rng.choice(["", ": Clone", ": Clone + Send + 'static", ": ?Sized"]), rng.choice(["", "", " = u8", " = Vec<u8>"]))


def gen_derive_input_src(rng, x, mistakes=0, fixed_attrs=None, body_kind=None):
    attrs = fixed_attrs if fixed_attrs is not None else attr_list(rng, x, mistakes)
    vis = rng.choice(["", "pub ", "pub(crate) "])
    tp = None
    g = x["generics"]
    while isinstance(g, dict):
        g = list(g.values())[0]
    if isinstance(g, str) and g in EBY:
        tp = g
    if tp and rng.random() < 0.8:
        _, tsrc = gen_type_param_src(rng, tp, mistakes if rng.random() < 0.3 else 0)
        generics = rng.choice(["<%s>", "<'a, %s>", "<%s, const N: usize>", "<'a, %s, U: Copy>"]) % tsrc.strip()
    elif tp:
        generics = rng.choice(["", "", "<'a>"])          # a mirrored generics member over an item without type parameters
    else:
        generics = rng.choice(GENERICS)
    if "T" in generics:
        where = rng.choice(WHERES)
    else:
        # a where-clause does not need a parameter list
        where = rng.choice(["", "", " where u32: Copy", " where Self: Sized, String: Clone"] + ([" where 'a: 'static"] if "'a" in generics else []))
    vconv = fconv = None
    if x["data"] and "data" in x["data"]:
        vconv, fconv = x["data"]["data"]
    kind = body_kind or rng.choice(["struct", "struct", "struct", "enum", "enum", "union"] if rng.random() < 0.15 else ["struct", "struct", "enum"])
    if kind == "struct":
        style, body = gen_fields_src(rng, fconv or "unit", mistakes)
        tail = ";" if style != "named" else ""
        if style == "unit":
            return attrs, "%s %sstruct S%s%s;" % (texts(attrs), vis, generics, where)
        if style == "tuple":
            return attrs, "%s %sstruct S%s %s%s;" % (texts(attrs), vis, generics, body, where)
        return attrs, "%s %sstruct S%s%s %s" % (texts(attrs), vis, generics, where, body)
    if kind == "enum":
        n = rng.choice([0, 1, 2, 3, 4, 6])
        idents = ["First", "Second", "Third", "Fourth", "Fifth", "Sixth"]
        vs = [gen_variant_src(rng, vconv or "unit", mistakes if rng.random() < 0.5 else 0, ident=idents[i])[1] for i in range(n)]
        return attrs, "%s %senum S%s%s { %s }" % (texts(attrs), vis, generics, where, ", ".join(vs))
    return attrs, "%s %sunion S%s%s { a: u8, b: u16 }" % (texts(attrs), vis, generics, where)


def make_case(rng, x, mistakes=0, with_twin=False):
    """one case dict for receiver x: a source item, the entry point and (optionally) the canonical twin source"""
    k = x["kind"]
    if k == "field":
        attrs, fsrc = gen_field_src(rng, x["name"], mistakes)
        wrap = lambda s: "struct S<'a, T, const N: usize> { %s }" % s
        c = {"entry": "field", "index": 0, "src": wrap(fsrc)}
        if with_twin:
            can = canonical(x, attrs)
            if can is not None:
                c["twin_src"] = wrap(fsrc.replace(texts(attrs), texts(can), 1) if texts(attrs) else fsrc)
    elif k == "variant":
        attrs, vsrc = gen_variant_src(rng, x["name"], mistakes)
        wrap = lambda s: "enum S<'a, T, const N: usize> { %s }" % s
        c = {"entry": "variant", "index": 0, "src": wrap(vsrc)}
        if with_twin:
            can = canonical(x, attrs)
            if can is not None and texts(attrs):
                c["twin_src"] = wrap(vsrc.replace(texts(attrs), texts(can), 1))
    elif k == "type_param":
        attrs, tsrc = gen_type_param_src(rng, x["name"], mistakes)
        wrap = lambda s: "struct S<%s>(T);" % s.strip()
        c = {"entry": "type_param", "index": 0, "src": wrap(tsrc)}
        if with_twin:
            can = canonical(x, attrs)
            if can is not None and texts(attrs):
                c["twin_src"] = wrap(tsrc.replace(texts(attrs), texts(can), 1))
    elif k == "attributes":
        attrs = attr_list(rng, x, mistakes)
        c = {"entry": "attributes", "src": "%s struct S;" % texts(attrs)}
        if with_twin:
            can = canonical(x, attrs)
            if can is not None:
                c["twin_src"] = "%s struct S;" % texts(can)
    else:
        st = rng.getstate()
        attrs, src = gen_derive_input_src(rng, x, mistakes)
        c = {"entry": "derive_input", "src": src}
        if with_twin:
            can = canonical(x, attrs)
            if can is not None and texts(attrs):
                c["twin_src"] = src.replace(texts(attrs), texts(can), 1)
    c["recv"] = x["name"]
    c["op"] = "elem"
    # C16: the body's element converter is also run on every field / variant on its own (plain receivers only)
    if x["kind"] == "derive_input" and x["data"] and "data" in x["data"]:
        v, f = x["data"]["data"]
        if isinstance(f, str) and f in EBY:
            c["sub_f"] = f
        if isinstance(v, str) and v in EBY:
            c["sub_v"] = v
    if x["kind"] == "variant" and isinstance(x["fields_magic"], str) and x["fields_magic"] in EBY:
        c["sub_f"] = x["fields_magic"]
    return c


PAIR_CAP = 2000


def set_pairs(c):
    """the (word, name) similarity table of the case's FINAL source (callers may replace src after make_case): the words
    that are not names first; a case whose table would be cut is marked and left out by the driver"""
    names = sorted(set(all_names(EBY[c["recv"]])))
    plain = (c["src"] + " " + c.get("twin_src", "")).replace("r#", "")
    words = sorted(set(re.findall(r"(?:::)?[A-Za-z_][A-Za-z0-9_:]*", plain))
                   | set(re.findall(r"(?:::)?[A-Za-z_][A-Za-z0-9_:]*", re.sub(r"\s*::\s*", "::", plain))), key=lambda w: (w in names, w))
    c["pairs"] = [(w, n) for w in words for n in names][:PAIR_CAP]
    c["pairs_truncated"] = len(words) * len(names) > PAIR_CAP
    return c
