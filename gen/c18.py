"""C18 — shape validation accepts exactly the declared shapes."""
import itertools
import json
import vlib
from vlib import capp, clist, cstr, cbool
import errgen

HEADER = """From DarlingModel Require Import Base.Prelude Shape.Shape Exec.ErrObs Exec.ShapeCase.
Local Open Scope string_scope."""
SHAPES = ["named", "tuple", "unit", "newtype"]
C_SHAPE = {"named": "Named", "tuple": "Tuple", "unit": "Unit", "newtype": "Newtype"}
C_SW = {"any": "SWAny", "named": "SWNamed", "tuple": "SWTuple", "unit": "SWUnit", "newtype": "SWNewtype"}
FIELDS = {"named": ["{ a: u8 }", "{ a: u8, b: String }", "{}"], "tuple": ["(u8, u16)", "()", "(u8, u8, u8)"], "unit": [""],
          "newtype": ["(u8)", "(Vec<u8>,)"]}


def c_word(w):
    if w == "any":
        return "WAny"
    kind, sw = w.split("_")
    return "(%s %s)" % ("WStruct" if kind == "struct" else "WEnum", C_SW[sw])


def c_obs(r):
    if "panic" in r:
        return capp("SPanic", cstr(r["panic"]))
    if "ok" in r:
        return "SOk"
    return capp("SErr", errgen.coq_obs(r["err"]))


def struct_src(rng, shape):
    f = rng.choice(FIELDS[shape])
    return "struct S %s%s" % (f, "" if shape == "named" else ";")


def enum_src(rng, shapes):
    vs = ["V%d %s" % (i, rng.choice(FIELDS[s])) for i, s in enumerate(shapes)]
    return "enum E { %s }" % ", ".join(vs)


def run(tier, seed, replay=None):
    prop = "C18"
    R = vlib.Run(prop, tier, seed)
    R.proof_coverage(vlib.proof_step(prop))
    binary, log = vlib.build_harness()
    if binary is None:
        R.violation("harness-build", "harness does not build against /repo: " + log[-1500:],
                    {"failed": "cargo build vh-rt", "log": log[-4000:]}, found_input=False)
        return R.finish()
    fam = vlib.run_harness(binary, [{"id": 0, "op": "shape", "kind": "family"}])[0]
    cases = []
    # (1) the stand-alone API, exhaustively: 16 sets x 4 shapes
    for k in range(5):
        for st in itertools.combinations(SHAPES, k):
            for sh in SHAPES:
                cases.append({"op": "shape", "kind": "api", "set": list(st), "shape": sh})
    # (2) derived FromDeriveInput receivers: every receiver of the family x bodies
    enum_bodies = [()] + [c for n in (1, 2, 3, 4) for c in itertools.product(SHAPES, repeat=n)]
    for i, ws in enumerate(fam["di"]):
        for sh in SHAPES:
            cases.append({"op": "shape", "kind": "derived", "recv": i, "words": ws, "body": ["struct", sh],
                          "src": struct_src(R.rng, sh)})
        ebs = enum_bodies if tier == "thorough" else [()] + R.rng.sample(enum_bodies[1:], 10)
        for vs in ebs:
            cases.append({"op": "shape", "kind": "derived", "recv": i, "words": ws, "body": ["enum"] + list(vs),
                          "src": enum_src(R.rng, vs)})
        cases.append({"op": "shape", "kind": "derived", "recv": i, "words": ws, "body": ["union"],
                      "src": "union U { a: u8, b: u16 }"})
    # (3) derived FromVariant receivers, exhaustively: 32 sets x 4 shapes
    for i, ws in enumerate(fam["v"]):
        for sh in SHAPES:
            cases.append({"op": "shape", "kind": "variant", "recv": i, "words": ws, "shape": sh,
                          "src": "V %s" % R.rng.choice(FIELDS[sh])})
    if replay:
        cases = [json.load(open(replay))["case"]]
    for i, c in enumerate(cases):
        c["id"] = i
    results = vlib.run_harness(binary, cases)
    terms, keep = [], []
    for c in cases:
        r = results.get(c["id"], {})
        if "unparsed" in r or "error" in r or "harness_panic" in r or "crash" in r:
            R.violation("harness-error", "harness could not run %s: %s" % (json.dumps(c), json.dumps(r)[:300]),
                        {"case": c, "result": r, "failed": "harness observation"}, found_input=False)
            continue
        if c["kind"] == "api":
            t = capp("CApi", clist([C_SHAPE[s] for s in c["set"]]), C_SHAPE[c["shape"]], cbool(r["contains"]),
                     c_obs(r["check"]), cstr(r["display"]))
        elif c["kind"] == "derived":
            b = c["body"]
            body = ("(BStruct %s)" % C_SHAPE[b[1]] if b[0] == "struct" else
                    "(BEnum %s)" % clist([C_SHAPE[s] for s in b[1:]]) if b[0] == "enum" else "BUnion")
            t = capp("CDerived", clist([c_word(w) for w in c["words"]]), body, c_obs(r))
        else:
            t = capp("CVariant", clist([C_SW[w] for w in c["words"]]), C_SHAPE[c["shape"]], c_obs(r))
        terms.append(t)
        keep.append(c)
    bad, errors = vlib.coq_eval(prop, HEADER, terms, "run18 %s")

    def key(i):
        c = keep[i]
        if c["kind"] == "derived" and c["body"] == ["union"]:
            return "union-body"
        return "shape:%s" % c["kind"]

    vlib.decide(R, terms, bad, errors,
                describe=lambda i: json.dumps({k: v for k, v in keep[i].items() if k not in ("id", "op")}),
                model_body="Eval vm_compute in (match c with CDerived ws b o => (shape_obs_of (validate_body (di_of_words ws) b), documented_table (di_of_words ws) b) "
                           "| CVariant ws s o => (shape_obs_of (ss_check (ds_to_set (ds_of_words ws)) s), in_set (ds_of_words ws) s) "
                           "| CApi set s _ _ _ => (shape_obs_of (ss_check (ss_new set) s), ss_contains (ss_new set) s) end).",
                key_fn=key, size_fn=lambda i: len(json.dumps(keep[i])),
                header=HEADER, results=results, cases=keep,
                failed_holds="holds18 (Exec/ShapeCase.v): the documented table on the implementation's verdict",
                failed_agree="correspondence agree18 (Exec/ShapeCase.v) with Shape/Shape.v")
    kinds = {}
    for c in keep:
        kinds[c["kind"]] = kinds.get(c["kind"], 0) + 1
    R.coverage.update({
        "evaluations": len(keep),
        "distinct_nontrivial": len({json.dumps({k: v for k, v in c.items() if k not in ("id", "src")}, sort_keys=True) for c in keep
                                    if c["kind"] != "api"}),
        "rule": "stand-alone ShapeSet API exhaustively (16 sets x 4 shapes: contains, check, Display); %d compiled FromDeriveInput receivers "
                "(empty list, every single word, every pair, random larger subsets, all eleven) x {4 struct styles, enums of 0-4 variants over "
                "style combinations, a union}; all 32 FromVariant word subsets x 4 shapes; non-trivial = a derived receiver case" % len(fam["di"]),
        "exhaustive": False,
        "samples": [keep[i] for i in (0, 70, len(keep) // 2, len(keep) - 1) if i < len(keep)],
        "distribution": {"kinds": kinds},
    })
    R.assumptions = ["the receivers are compiled into the harness against /repo's derive macros at build time",
                     "parsing of the supports(...) words themselves is C10's subject; here the declaration is the record the words set"]
    return R.finish()
