"""C08 — attribute selection, merging across attributes, and forwarding."""
import json
import vlib
import erecvlib
import elemprop


def gen_cases(rng, tier):
    cases = []
    per = 24 if tier == "quick" else 200
    for x in erecvlib.ERECVS:
        for _ in range(per):
            m = rng.choice([0, 0, 0, 1, 1, 2, 3])
            cases.append(erecvlib.make_case(rng, x, m, with_twin=True))
    return cases


def run(tier, seed, replay=None):
    prop = "C08"
    R = vlib.Run(prop, tier, seed)
    R.proof_coverage(vlib.proof_step(prop))
    if replay:
        raw = [{k: v for k, v in json.load(open(replay))["case"].items() if k != "id"}]
    else:
        raw = gen_cases(R.rng, tier)
    out = elemprop.elem_part(
        R, prop, raw, "holds08", "nontrivial08", key_fn=lambda c, r: "attr-selection",
        failed="holds08 (Exec/ElemCase.v): outcome equal to the outcome on the canonical single-attribute re-partition; `attrs` member = the non-consumed "
               "attributes selected by forward_attrs, unmodified, in order")
    if out is None:
        return R.finish()
    keep = out["keep"]
    with_twin = sum(1 for c in keep if "twin_src" in c)
    nattrs = {}
    for c in keep:
        n = c["src"].count("#[") + c["src"].count("/**")
        b = "0" if n == 0 else "1-2" if n <= 2 else "3-5" if n <= 5 else "6+"
        nattrs[b] = nattrs.get(b, 0) + 1
    R.coverage.update({
        "evaluations": len(keep) + with_twin,
        "distinct_nontrivial": min(out["nontrivial"], len({(c["recv"], c["src"]) for c in keep})),
        "rule": "%d compiled element-level receivers (FromDeriveInput / FromField / FromVariant / FromTypeParam / FromAttributes; 0-3 attribute names incl. multi-segment "
                "ones, forward_attrs absent / bare / list / empty list, attrs member absent / plain / with a converter, overlapping consume and forward lists) x elements whose "
                "selected items (mistake-free or with 1-3 injected mistakes) are split over 0-4 attributes under any of the declared names, with bare / empty / name-value / "
                "malformed selected attributes and 0-4 unrelated attributes (doc comments, cfg, derive, arbitrary token bodies, multi-segment tools) interleaved; every case "
                "also runs the canonical re-partition (all items in one attribute, only forwarded attributes kept); non-trivial = some attribute consumed or forwarded "
                "(counted in Coq: %d)" % (len(erecvlib.ERECVS), out["nontrivial"]),
        "samples": elemprop.samples(keep),
        "distribution": {"outcomes": out["outcomes"], "entries": out["entries"], "cases_with_canonical_twin": with_twin, "attributes_per_source": nattrs,
                         "sources_rejected_by_syn": out["unparsed"]},
    })
    R.assumptions = ["the harness's echo of syn's Attribute (path, form, nested items with ranges) is the model's input",
                     "an attribute whose path is both consumed and listed in forward_attrs is consumed, not forwarded (bare and list form alike)"]
    return R.finish()
