"""Shared helpers for the derive-time properties: running derive cases and rendering observations."""
import json
import vlib
import syntax
from vlib import capp, clist, cstr, cbool, copt, cN, cospan

HEADER_DERIVE = """From DarlingModel Require Import Base.Prelude Base.Syntax Err.ErrTree Conv.Targets Shape.Shape Options.Resolve Exec.DeriveObs Exec.ConvCase Spec.C10 Exec.DeriveCase.
From DarlingModel Require Usage.Usage.
Local Open Scope string_scope."""
C_TRAIT = {"FromMeta": "DFromMeta", "FromDeriveInput": "DFromDeriveInput", "FromField": "DFromField", "FromVariant": "DFromVariant",
           "FromTypeParam": "DFromTypeParam", "FromAttributes": "DFromAttributes"}
C_STYLE = {"unit": "StUnit", "named": "StNamed", "tuple": "StTuple"}


def c_unode(n):
    """usage.rs mirror -> Usage.node with qualified constructors (the names clash with Base/Syntax.v)"""
    import c19
    import re
    t = c19.c_node(n)
    return re.sub(r"\b(N(?:Slice|Array|Ptr|Ref|BareFn|Tuple|Paren|Group|Path|TraitObject|ImplTrait|Opaque|UnknownType|ArgsNone|Angle|"
                  r"ParenArgs|ArgType|ArgLifetime|ArgAssocType|ArgConstraint|ArgConst|BoundTrait|BoundLifetime|BoundOther))\b",
                  r"Usage.\1", t)


def c_rfield(f):
    from vlib import cspan
    return "(mkRField %s %s %s %s %s)" % (copt(f["ident"], cstr), cspan(f["span"]), copt(f["ident_span"], cspan),
                                          clist([syntax.c_nested(a) for a in f["attrs"]]), c_unode(f["ty"]))


def fields_span(fs, fallback):
    """span of the syn::Fields node: join of its tokens; for the echo we use the union of member spans (parens included by syn)"""
    return fs.get("span") or fallback


def c_rdecl(e):
    from vlib import cspan
    b = e["body"]
    if b["t"] == "union":
        body = "RUnion"
    elif b["t"] == "struct":
        fs = b["fields"]
        body = "(RStruct %s %s %s)" % (C_STYLE[fs["style"]], clist([c_rfield(f) for f in fs["fields"]]), cspan(fs["span"]))
    else:
        vs = []
        for v in b["variants"]:
            fs = v["fields"]
            vs.append("(mkRVariant %s %s %s %s %s %s)" % (cstr(v["ident"]), cspan(v["span"]), clist([syntax.c_nested(a) for a in v["attrs"]]),
                                                         C_STYLE[fs["style"]], clist([c_rfield(f) for f in fs["fields"]]), cspan(fs["span"])))
        body = "(REnum %s)" % clist(vs)
    return "(mkRDecl %s %s %s %s)" % (cspan(e["ident_span"]), clist([syntax.c_nested(a) for a in e["attrs"]]), body,
                                      clist([cstr(x) for x in e["type_params"]]))


def c_case_derive(c, r):
    return "{| dc_trait := %s; dc_decl := %s; dc_or := %s; dc_obs := %s |}" % (
        C_TRAIT[c["trait"]], c_rdecl(r["echo"]), syntax.c_oracles(r.get("or")), c_derive_obs(r))


def c_derive_obs(r):
    return ("{| d_panic := %s; d_impls := %s; d_other_items := %s; d_diags := %s; d_unparsed := %s |}" % (
        copt(r.get("panic"), cstr),
        clist([cstr(i["trait"] or "") for i in r.get("impls", [])]),
        cN(r.get("other_items", 0)),
        clist(["(%s, %s)" % (cospan(d["span"]), cstr(d["msg"])) for d in r.get("diags", [])]),
        cbool(r.get("unparsed") is not None)))


def run_derive_cases(R, raw):
    binary, log = vlib.build_harness()
    if binary is None:
        R.violation("harness-build", "harness does not build against /repo: " + log[-1500:],
                    {"failed": "cargo build vh-rt", "log": log[-4000:]}, found_input=False)
        return None, None, None
    cases = [dict(c, id=i, op="derive") for i, c in enumerate(raw)]
    results = vlib.run_harness(binary, cases)
    keep, unparsed = [], 0
    for c in cases:
        r = results.get(c["id"], {})
        if "unparsed" in r and "echo" not in r:
            unparsed += 1
            continue
        if "error" in r or "harness_panic" in r or "crash" in r:
            R.violation("harness-error", "harness could not run %s: %s" % (json.dumps(c)[:300], json.dumps(r)[:300]),
                        {"case": c, "result": r, "failed": "harness observation"}, found_input=False)
            continue
        keep.append(c)
    return keep, results, unparsed


def panic_class(msg):
    for k in ("Wasn't able to parse", "Accumulator dropped", "Multi-field tuples", "Match arms aren't supported for tuple variants",
              "Core loop on enums", "FieldsGen doesn't support tuples", "unreachable", "Unknown syn::"):
        if k in msg:
            return k.replace(" ", "-").replace("'", "")
    return "other-panic"
