"""C11 — scalar conversions are exact: in range means that value, otherwise an error."""
import json
import vlib
import syntax
from syntax import INT_TARGETS, int_bounds

SUFFIXES = ["", "", "", "u8", "i8", "u16", "i32", "u64", "i128", "usize", "isize"]


def spell_int(rng, v, style=None):
    """One unquoted spelling of the non-negative magnitude |v| (sign added by the caller)."""
    m = abs(v)
    style = style or rng.choice(["dec", "dec", "hex", "oct", "bin", "us", "suffix", "hexus"])
    if style == "dec":
        body = str(m)
    elif style == "hex":
        body = "0x%X" % m if rng.random() < 0.5 else "0x%x" % m
    elif style == "oct":
        body = "0o%o" % m
    elif style == "bin":
        body = "0b" + bin(m)[2:]
    elif style == "us":
        d = str(m)
        body = "_".join(d[max(0, i - 3):i] for i in range(len(d), 0, -3)[::-1]) if len(d) > 3 else d + "_"
    elif style == "hexus":
        body = "0x_%X" % m
    else:
        body = str(m) + rng.choice(SUFFIXES[3:])
    return ("-" if v < 0 else "") + body


def interesting_ints(rng, name):
    lo, hi = int_bounds(name)
    vals = {0, 1, -1, 2, -2, 7, 10, 100, 255, 256, -128, -129, 65535, 65536, 70000, -70000}
    for b in (lo, hi):
        for d in (-2, -1, 0, 1, 2):
            vals.add(b + d)
    for k in (7, 8, 15, 16, 31, 32, 63, 64, 127, 128, 129):
        vals.update({1 << k, (1 << k) - 1, -(1 << k), -(1 << k) - 1})
    for _ in range(6):
        vals.add(rng.randrange(-(1 << 140), 1 << 140))
        vals.add(rng.randrange(lo - 3, hi + 4))
    return sorted(vals)


QUOTED_ODD = ["", " ", "+", "-", "+-1", "--1", "1 ", " 1", "1_000", "0x10", "1e3", "1.0", "١٢", "12a", "a12",
              "+0", "-0", "000", "0000000000000000000000000000000000000000255", "+255", "+256", "-00128",
              "99999999999999999999999999999999999999999999999999999999999999999999999999999a"]
WRONG_FORMS = ["x", "x()", "x(1)", "x(a = 1)", "x = true", "x = 'c'", "x = 1.5", "x = b'a'", 'x = b"ab"', 'x = c"ab"',
               "x = foo", "x = foo::bar", "x = 1 + 1", "x = [1, 2]", "x = (1)", "x = -(1)", "x(a b)", "x = 1..2", "x = |a| a"]
FLOAT_STRS = ["1.5", "0", "-0.0", "1e10", "1E-5", "inf", "-inf", "NaN", "nan", "infinity", "1e400", "1e-400", "", " 1",
              "1 ", "1_0", "0x10", "+3.", ".5", "5.", "1.7976931348623157e308", "3.4028235e38", "3.4028236e38",
              "0.1", "0.30000000000000004", "123456789012345678901234567890", "1e", "e1", "--1", "+.e1", "1.5f32"]
FLOAT_LITS = ["1.5", "1e3", "2.5f32", "2.5f64", "1_000.5", "0.1", "1E-5", "3.4028236e38f32", "1e400", "1f64", "1f32",
              "1", "0.0", "123456789.123456789", "5."]
BOOL_SRCS = ["x", "x = true", "x = false", 'x = "true"', 'x = "false"', 'x = "True"', 'x = "1"', 'x = ""', "x = 1", "x()",
             "x(true)", "x = 't'", 'x = " true"', "x = yes"]
CHAR_SRCS = ["x = 'a'", "x = '😬'", 'x = "a"', 'x = "😬"', 'x = "é"', 'x = "ab"', 'x = ""', 'x = "é"', "x = '\\n'",
             'x = "\\n"', "x", "x = 1", "x = true", "x('a')", "x = b'a'", 'x = "\\u{10FFFF}"', 'x = "\\0"']
STR_SRCS = ['x = "hello"', 'x = ""', 'x = r#"he said "hi""#', 'x = "ünï"', 'x = "a\\nb"', "x", "x = 1", "x = true", "x = 'c'",
            'x("a")', "x = hello", 'x = b"a"', 'x = "\\\\"', 'x = "tab\\there"']
NESTED_SRCS = ["5", '"5"', "true", "'c'", "1.5", "b'a'", "-3", '"-3"', "x", "x = 5", "300", '"abc"']


def f32_midpoints(rng, n):
    """Decimal strings a hair above / below the midpoint of two adjacent f32 values: parsing them as f64 and narrowing
    rounds twice and lands on the wrong neighbour, so they separate `str::parse::<f32>` from any detour through f64."""
    import struct
    from fractions import Fraction
    from decimal import Decimal, getcontext
    getcontext().prec = 60
    out = []
    for _ in range(n):
        bits = rng.choice([0x3f800000, 0x3f800001, 0x7f7fffff - 1, 0x00800000, rng.randrange(0x00800000, 0x7f000000)])
        x = Fraction(struct.unpack(">f", struct.pack(">I", bits))[0])
        y = Fraction(struct.unpack(">f", struct.pack(">I", bits + 1))[0])
        m = (x + y) / 2
        for sign in (-1, 1):
            v = m + sign * m / (1 << 58)
            d = Decimal(v.numerator) / Decimal(v.denominator)
            out.append(format(d, ".50e") if rng.random() < 0.5 else format(d, "f")[:80])
    return out


def gen_cases(rng, tier):
    cases = []
    add = lambda target, src, entry="meta": cases.append({"target": target, "src": src, "entry": entry})
    per = 40 if tier == "quick" else 400
    for name in sorted(INT_TARGETS):
        vals = interesting_ints(rng, name)
        picks = vals if tier == "thorough" else rng.sample(vals, min(len(vals), per))
        for v in picks:
            r = rng.random()
            if r < 0.45:
                add(name, "x = " + spell_int(rng, v))
            elif r < 0.8:
                q = str(v) if rng.random() < 0.8 else rng.choice(["+", "0", "00"]) + str(abs(v))
                add(name, 'x = "%s"' % q)
            else:
                add(name, 'x = "%s"' % str(v))
                add(name, "x = " + spell_int(rng, v, "dec"))
        for q in (QUOTED_ODD if tier == "thorough" else rng.sample(QUOTED_ODD, 8)):
            add(name, "x = %s" % json.dumps(q, ensure_ascii=False))
        for w in (WRONG_FORMS if tier == "thorough" else rng.sample(WRONG_FORMS, 6)):
            add(name, w)
        for n in rng.sample(NESTED_SRCS, 3):
            add(name, n, "nested")
        add(name, "", "none")
    for ft in ("f32", "f64"):
        for s in FLOAT_STRS:
            add(ft, "x = %s" % json.dumps(s))
        for l in FLOAT_LITS:
            add(ft, "x = " + l)
            add(ft, "x = -" + l)
        for w in WRONG_FORMS:
            add(ft, w)
        for _ in range(200 if tier == "quick" else 3000):
            mant = "%d.%d" % (rng.randrange(0, 10 ** rng.randint(1, 20)), rng.randrange(0, 10 ** rng.randint(1, 20)))
            exp = rng.choice(["", "", "e%d" % rng.randint(-330, 330), "E+%d" % rng.randint(0, 40)])
            s = rng.choice(["", "", "-", "+"]) + mant + exp
            add(ft, "x = %s" % json.dumps(s))
            if not s.startswith("+"):
                add(ft, "x = " + s)
        for s in f32_midpoints(rng, 40 if tier == "quick" else 600):
            add(ft, "x = %s" % json.dumps(s))
            if "e" not in s or "." in s:
                add(ft, "x = " + s)
        add(ft, "", "none")
    for t, srcs in (("bool", BOOL_SRCS), ("AtomicBool", BOOL_SRCS), ("char", CHAR_SRCS), ("String", STR_SRCS),
                    ("PathBuf", STR_SRCS), ("()", BOOL_SRCS)):
        for s in srcs:
            add(t, s)
        for n in NESTED_SRCS:
            add(t, n, "nested")
        add(t, "", "none")
    return cases


def interval_sweep(R, binary):
    """Exhaustive [-70000, 70000] x 24 targets, quoted and unquoted, compared as the intervals on which the
    conversion returns exactly the denoted value (thorough tier)."""
    cases, cid = [], 0
    for name in sorted(INT_TARGETS):
        cases.append({"id": cid, "op": "int_sweep", "target": name, "lo": -70000, "hi": 70000})
        cid += 1
    res = vlib.run_harness(binary, cases, procs=len(cases))
    bad = []
    for c in cases:
        r = res.get(c["id"], {})
        lo, hi = int_bounds(c["target"])
        nz = INT_TARGETS[c["target"]][2]
        signed = INT_TARGETS[c["target"]][0]
        want = []
        a, b = max(lo, -70000), min(hi, 70000)
        if nz and a <= 0 <= b:
            want = [x for x in ([a, -1], [1, b]) if x[0] <= x[1]]
        elif a <= b:
            want = [[a, b]]
        # unquoted negative literals are accepted only by signed targets; same intervals
        if r.get("quoted") != want or r.get("unquoted") != want or r.get("wrong", 0) != 0:
            bad.append((c, r, want))
    return cases, bad


def run(tier, seed, replay=None):
    prop = "C11"
    R = vlib.Run(prop, tier, seed)
    R.proof_coverage(vlib.proof_step(prop))
    binary, log = vlib.build_harness()
    if binary is None:
        R.violation("harness-build", "harness does not build against /repo: " + log[-1500:],
                    {"failed": "cargo build vh-rt", "log": log[-4000:]}, found_input=False)
        return R.finish()
    if replay:
        c = json.load(open(replay))["case"]
        raw = [{"target": c["target"], "src": c["src"], "entry": c.get("entry", "meta")}]
    else:
        raw = gen_cases(R.rng, tier)
    cases = [dict(c, id=i, op="conv") for i, c in enumerate(raw)]
    results = vlib.run_harness(binary, cases)
    terms, unparsed = [], 0
    keep = []
    for c in cases:
        r = results.get(c["id"], {})
        if "unparsed" in r:
            unparsed += 1        # not valid attribute syntax for syn: outside the quantifier
            continue
        if "error" in r or "harness_panic" in r or "crash" in r:
            R.violation("harness-error", "harness could not run case %s: %s" % (json.dumps(c), json.dumps(r)[:400]),
                        {"case": c, "result": r, "failed": "harness observation"}, found_input=False)
            continue
        keep.append(c)
        terms.append(syntax.c_case_conv(c["target"], c["entry"], r))
    bad, errors = vlib.coq_eval(prop, syntax.HEADER_CONV, terms, "run_conv holds11 %s")
    vlib.decide(R, terms, bad, errors,
                describe=lambda i: "target %s on `%s` (%s)" % (keep[i]["target"], keep[i]["src"], keep[i]["entry"]),
                model_body="Eval vm_compute in (model_conv c, spec11 (pf_of (k_pf c)) (k_target c) (k_input c)).",
                key_fn=lambda i: "scalar:%s" % keep[i]["target"],
                size_fn=lambda i: len(keep[i]["src"]),
                header=syntax.HEADER_CONV, results=results, cases=keep,
                failed_holds="holds11 (Exec/ConvCase.v): spec11, the mathematical reading of the literal",
                failed_agree="correspondence agree_conv (Exec/ConvCase.v) with Conv/Scalars.v")
    sweep_n = 0
    if tier == "thorough" and not replay:
        sc, sbad = interval_sweep(R, binary)
        sweep_n = len(sc) * 140001 * 2
        for c, r, want in sbad[:3]:
            R.violation("int-sweep:%s" % c["target"],
                        "exhaustive sweep [-70000,70000] for %s: conversion is exact on %s (quoted) / %s (unquoted), %d wrong values; expected exactly %s"
                        % (c["target"], r.get("quoted"), r.get("unquoted"), r.get("wrong", -1), want),
                        {"case": c, "observation": r, "expected_intervals": want, "failed": "interval sweep vs C11_std_parse_int_exact"})
    outcomes = {"ok": 0, "err": 0, "panic": 0, "none": 0}
    for c in keep:
        r = results[c["id"]]
        for k in outcomes:
            if k in r:
                outcomes[k] += 1
    by_target = {}
    for c in keep:
        by_target[c["target"]] = by_target.get(c["target"], 0) + 1
    R.coverage.update({
        "evaluations": len(keep) + sweep_n,
        "distinct_nontrivial": len({(c["target"], c["src"], c["entry"]) for c in keep if "=" in c["src"]}),
        "rule": "24 integer targets x {type boundaries +-2, 0, +-1, powers of two, random up to 140 bits} in decimal/hex/octal/binary/"
                "underscore/suffix/quoted/signed spellings, odd quoted strings, wrong literal kinds and meta forms, nested-literal position, "
                "from_none; f32/f64 on fixed and random decimal/exponent/special strings; bool/char/String/PathBuf/() tables; each through the "
                "real from_meta and the model inside Coq; non-trivial = a name-value item; distinct by (target, source)."
                + (" Thorough: exhaustive [-70000,70000] x 24 x {quoted, unquoted} compared as exactness intervals." if sweep_n else ""),
        "samples": [keep[i] for i in (0, 1, len(keep) // 3, len(keep) // 2, len(keep) - 2) if i < len(keep)],
        "distribution": {"outcomes": outcomes, "per_target_min": min(by_target.values()), "targets": len(by_target),
                         "sources_rejected_by_syn": unparsed, "exhaustive_sweep_evaluations": sweep_n},
    })
    R.assumptions = ["syn's lexing of a literal into (base10 digits incl. sign, suffix) is trusted (taken from the harness echo)",
                     "str::parse::<f32|f64> is an oracle (per-case table of bit patterns)",
                     "usize/isize are 64-bit on this target"]
    return R.finish()
