"""Shared driver of the element-level properties (C08, C16, element-level part of C07): cases -> real derived code -> Coq."""
import json
import vlib
import erecvlib


def elem_part(R, prop, raw, holds, nontrivial, key_fn=None, tag="elem", failed=None, sugg=True, binary=None):
    if binary is None:
        binary, log = vlib.build_harness()
        if binary is None:
            R.violation("harness-build", "harness does not build against /repo: " + log[-1500:],
                        {"failed": "cargo build vh-rt", "log": log[-4000:]}, found_input=False)
            return None
    cases = [c for c in (erecvlib.set_pairs(dict(c)) for c in raw) if not c["pairs_truncated"]]
    cases = [dict(c, id=i) for i, c in enumerate(cases)]
    results = vlib.run_harness(binary, cases)
    terms, keep, unparsed = [], [], 0
    for c in cases:
        r = results.get(c["id"], {})
        if "unparsed" in r:
            unparsed += 1
            continue
        if "error" in r or "harness_panic" in r or "crash" in r:
            R.violation("harness-error", "harness could not run case %s: %s" % (json.dumps(c)[:600], json.dumps(r)[:400]),
                        {"case": c, "result": r, "failed": "harness observation"}, found_input=False)
            continue
        try:
            terms.append(erecvlib.c_case_elem(erecvlib.EBY[c["recv"]], c, r, sugg=sugg))
            keep.append(c)
        except (ValueError, KeyError) as e:
            R.violation("render-error", "cannot render case %s: %r" % (json.dumps(c)[:600], e), {"case": c, "failed": "renderer"}, found_input=False)
    bad, errors = vlib.coq_eval(prop, erecvlib.HEADER_ELEM, terms, "run_elem_counted %s %s %%s" % (holds, nontrivial), shard=60, tag=tag)
    describe = lambda i: "%s::%s on `%s`" % (keep[i]["recv"], keep[i]["entry"], keep[i]["src"])
    vlib.decide(R, terms, bad, errors, describe=describe,
                model_body="Eval vm_compute in (model_elem c).",
                key_fn=(lambda i: key_fn(keep[i], results[keep[i]["id"]])) if key_fn else (lambda i: "elem"),
                size_fn=lambda i: len(keep[i]["src"]),
                header=erecvlib.HEADER_ELEM, results=results, cases=keep,
                failed_holds=failed or (holds + " (Exec/ElemCase.v)"),
                failed_agree="correspondence agree_elem (Exec/ElemCase.v) with Run/Outer.v")
    outcomes = {"ok": 0, "err": 0, "panic": 0}
    kinds = {}
    for c in keep:
        for k in outcomes:
            if k in results[c["id"]]:
                outcomes[k] += 1
        kinds[c["entry"]] = kinds.get(c["entry"], 0) + 1
    return {"keep": keep, "results": results, "unparsed": unparsed, "outcomes": outcomes, "entries": kinds, "nontrivial": vlib.LAST_COUNT}


def samples(keep):
    return [{k: c[k] for k in ("recv", "entry", "src") if k in c} for c in [keep[i] for i in (0, len(keep) // 3, len(keep) // 2, len(keep) - 1) if i < len(keep)]]
