"""C19 — generic-parameter usage analysis is exact (analysis half)."""
import json
import re
import vlib
from vlib import capp, clist, cstr, cbool, copt

HEADER = """From DarlingModel Require Import Base.Prelude Usage.Usage Exec.UsageCase.
Local Open Scope string_scope."""

TPARAMS = ["T", "U", "V", "W", "Key", "r#type"]
LTS = ["'a", "'b", "'c", "'d"]
CONCRETE = ["u8", "String", "std::string::String", "bool", "()", "!", "_", "Self"]
TRAITS = ["Clone", "Send", "std::fmt::Debug", "Tr"]


class Gen:
    """Builds a type from a grammar while recording which query-set members were planted at use positions."""

    def __init__(self, rng, set_tp, set_lt, declare):
        self.rng, self.set_tp, self.set_lt, self.declare = rng, set_tp, set_lt, declare
        self.used_tp, self.used_lt = set(), set()

    def param(self, use=True):
        p = self.rng.choice(TPARAMS)
        if use and p in self.set_tp:
            self.used_tp.add(p)
        return p

    def lt(self, use=True):
        l = self.rng.choice(LTS)
        if use and l in self.set_lt:
            self.used_lt.add(l)
        return l

    def leaf(self, use=True):
        r = self.rng.random()
        if r < 0.45:
            return self.param(use)
        if r < 0.6:
            return self.rng.choice(CONCRETE)
        if r < 0.64:
            return "%s::Assoc" % self.param(use)                 # leading segment: a use
        if r < 0.68:
            # a generic associated type projected from a parameter: the leading segment AND the arguments further on are uses
            return "%s::Member<%s>" % (self.param(use), self.lt(use) if self.rng.random() < 0.3 else self.param(use))
        if r < 0.74:
            return "a::%s" % self.param(False)                   # path tail: not a use
        if r < 0.80:
            return "::%s" % self.param(False)                    # global path: not a use
        if r < 0.86:
            return "m!(%s)" % self.param(False)                  # macro body: not searched
        if r < 0.92:
            return "Arr<{ %s::N }>" % self.param(False)          # const-expression argument: not searched
        return "[u8; %s::N]" % self.param(False)                 # array length: not searched

    def bound(self, depth, use=True):
        r = self.rng.random()
        if r < 0.2 and use:
            return self.lt(use)
        tr = self.rng.choice(TRAITS)
        if r < 0.55:
            return tr
        if r < 0.75:
            return "%s<%s>" % (tr, self.ty(depth - 1, use))
        if r < 0.82:
            return "Iterator<Item = %s>" % self.ty(depth - 1, use)
        if r < 0.85:
            # generic arguments written on the NAME of an associated type (generic associated types) are uses too
            a = self.lt(use) if self.rng.random() < 0.4 else self.ty(depth - 1, use)
            return self.rng.choice(["Tr<Gat<%s> = u32>", "Tr<Gat<%s>: Clone>", "Lend<Item<%s> = u8, Other = u16>"]) % a
        if r < 0.92:
            return "Fn(%s) -> %s" % (self.ty(depth - 1, use), self.ty(depth - 1, use))
        return "Tr<Item: PartialEq<%s>>" % self.ty(depth - 1, use)

    def ty(self, depth, use=True):
        if depth <= 0:
            return self.leaf(use)
        r = self.rng.random()
        sub = lambda: self.ty(depth - 1 - (self.rng.random() < 0.3), use)
        if r < 0.12:
            return self.leaf(use)
        if r < 0.2:
            return "[%s]" % sub()
        if r < 0.27:
            return "[%s; 4]" % sub()
        if r < 0.33:
            return "*%s %s" % (self.rng.choice(["const", "mut"]), sub())
        if r < 0.43:
            l = self.lt(use) + " " if self.rng.random() < 0.6 else ""
            return "&%s%s%s" % (l, self.rng.choice(["", "mut "]), sub())
        if r < 0.5:
            n = self.rng.choice([0, 1, 2, 3])
            out = " -> %s" % sub() if self.rng.random() < 0.6 else ""
            return "%sfn(%s)%s" % (self.rng.choice(["", "unsafe ", "extern \"C\" "]), ", ".join(sub() for _ in range(n)), out)
        if r < 0.58:
            n = self.rng.choice([0, 2, 3])
            return "(%s)" % ", ".join(sub() for _ in range(n))
        if r < 0.62:
            return "(%s)" % sub()
        if r < 0.8:
            n = self.rng.choice([1, 1, 2])
            args = []
            for _ in range(n):
                a = self.rng.random()
                args.append(self.lt(use) if a < 0.2 else "{ 3 }" if a < 0.25 else sub())
            args.sort(key=lambda s: 0 if s.startswith("'") else 1)
            head = self.rng.choice(["Vec", "Option", "std::collections::HashMap", "Foo", "a::b::Bar"])
            return "%s<%s>" % (head, ", ".join(args))
        if r < 0.86:
            bs = [self.bound(depth - 1, use) for _ in range(self.rng.choice([1, 2]))]
            bs.sort(key=lambda s: 1 if s.startswith("'") else 0)
            return "Box<dyn %s>" % " + ".join(bs)
        if r < 0.9:
            b = self.bound(depth - 1, use)
            if self.rng.random() < 0.4:
                # a precise-capturing bound names parameters without using them in the sense of the analysis
                return "impl %s + use<%s>" % (b, self.param(False))
            return "impl %s" % b
        if r < 0.93:
            # generic arguments on a non-final path segment are uses too
            form = self.rng.choice(["Outer<%s>::Inner", "a::Mk<%s>::Out<u8>", "<u8 as Tr<%s>>::Out", "Outer<%s>::Mid::Inner"])
            return form % sub()
        if r < 0.97:
            # qualified self: a use only for declaration purposes
            inner = self.ty(depth - 1, use and self.declare)
            return "<%s as %s>::Out" % (inner, self.rng.choice(["Tr", "Iterator", "a::Tr<u8>"]))
        return "Box<dyn for<'x> Fn(&'x %s)>" % sub()


def c_node(n):
    if n is None:
        return "None"
    t = n["t"]
    one = {"slice": "NSlice", "array": "NArray", "ptr": "NPtr", "paren": "NParen", "group": "NGroup", "argtype": "NArgType"}
    if t in one:
        return capp(one[t], c_node(n["e"]))
    if t == "assoc":
        return capp("NArgAssocType", c_node(n["g"]), c_node(n["e"]))
    if t == "constraint":
        return capp("NArgConstraint", c_node(n["g"]), clist([c_node(x) for x in n["bs"]]))
    if t == "ref":
        return capp("NRef", copt(n["lt"], cstr), c_node(n["e"]))
    if t == "barefn":
        return capp("NBareFn", clist([cstr(x) for x in n["lts"]]), clist([c_node(x) for x in n["ins"]]), copt(n["out"], c_node))
    if t == "tuple":
        return capp("NTuple", clist([c_node(x) for x in n["es"]]))
    if t == "path":
        return capp("NPath", copt(n["q"], c_node), cbool(n["leading"]),
                    clist(["(%s, %s)" % (cstr(i), c_node(a)) for i, a in n["segs"]]))
    if t in ("traitobject", "impltrait"):
        return capp({"traitobject": "NTraitObject", "impltrait": "NImplTrait"}[t], clist([c_node(x) for x in n["bs"]]))
    if t == "angle":
        return capp("NAngle", clist([c_node(x) for x in n["args"]]))
    if t == "parenargs":
        return capp("NParenArgs", clist([c_node(x) for x in n["ins"]]), copt(n["out"], c_node))
    if t == "arglt":
        return capp("NArgLifetime", cstr(n["lt"]))
    if t == "btrait":
        return capp("NBoundTrait", clist([cstr(x) for x in n["lts"]]), c_node(n["p"]))
    if t == "blt":
        return capp("NBoundLifetime", cstr(n["lt"]))
    return {"opaque": "NOpaque", "unknowntype": "NUnknownType", "noargs": "NArgsNone", "argconst": "NArgConst",
            "bother": "NBoundOther"}[t]


def node_stats(n, st):
    if isinstance(n, dict):
        st[n["t"]] = st.get(n["t"], 0) + 1
        for v in n.values():
            node_stats(v, st)
    elif isinstance(n, list):
        for v in n:
            node_stats(v, st)


MAGIC_FREE = ["alpha", "beta", "gamma", "delta", "eps", "zeta"]
TRAITS6 = ["FromMeta", "FromDeriveInput", "FromField", "FromVariant", "FromTypeParam", "FromAttributes"]


def gen_bound_decl(rng):
    """a generic receiver declaration; returns (trait, source, declared params, planted = params used by parsed fields, skip flags per field in echo order)"""
    trait = rng.choice(TRAITS6 + ["FromMeta", "FromMeta"])
    declared = rng.sample(["T", "U", "V", "W"], rng.randint(1, 3))
    own_bounds = {p: rng.choice(["", "", ": Clone", ": Tr<u8> + Send"]) for p in declared}
    extra = rng.choice(["", "'a, ", "'a, 'b: 'a, "])
    consts = rng.choice(["", "", ", const N: usize"])
    generics = "<%s%s%s>" % (extra, ", ".join(p + own_bounds[p] for p in declared), consts)
    where = rng.choice(["", "", " where %s: Copy" % declared[0], " where Vec<%s>: Send, %s: 'static" % (declared[0], declared[-1])])
    planted = set()
    flags = []

    def field(name, allow_flatten):
        g = Gen(rng, declared, [], False)
        # only the declared parameters and concrete types, so that nothing else looks like a use
        t = g.ty(rng.choice([0, 1, 2, 3]))
        opts = []
        r = rng.random()
        skipped = False
        if r < 0.3:
            opts.append("skip")
            skipped = True
        elif r < 0.4 and allow_flatten[0]:
            opts.append("flatten")
            allow_flatten[0] = False
        elif r < 0.5:
            opts.append("multiple")
        elif r < 0.6:
            opts.append("default")
        if not skipped:
            planted.update(g.used_tp)
        flags.append(skipped)
        return "%s%s: %s" % ("#[darling(%s)] " % ", ".join(opts) if opts else "", name, t)

    if trait in ("FromMeta", "FromDeriveInput", "FromAttributes") and rng.random() < 0.2:
        # a newtype receiver delegates to the SAME trait of its only field, which is parsed whatever its options say
        g = Gen(rng, declared, [], False)
        t = g.ty(rng.choice([0, 0, 1, 2]))
        planted.update(g.used_tp)
        flags.append(False)
        opt = rng.choice(["", "", "#[darling(skip)] "])
        src = "struct R%s(%s%s)%s;" % (generics, opt, t, where)
        own = {p: (0 if not own_bounds[p] else own_bounds[p].count("+") + 1) for p in declared}
        return trait, src, declared, sorted(planted), flags, own, trait
    if trait == "FromMeta" and rng.random() < 0.5:
        vs = []
        for vn in rng.sample(["First", "Second", "Third", "Fourth"], rng.randint(1, 4)):
            vskip = rng.random() < 0.25
            style = rng.choice(["unit", "newtype", "struct", "struct"])
            before = (set(planted), len(flags))
            if style == "unit":
                body = ""
            elif style == "newtype":
                g = Gen(rng, declared, [], False)
                # (`skip` on the field of a newtype variant does not stop it from being parsed)
                body = "(%s%s)" % (rng.choice(["", "", "", "#[darling(skip)] "]), g.ty(rng.choice([0, 1, 2])))
                planted.update(g.used_tp)
                flags.append(False)
            else:
                af = [False]
                body = " { %s }" % ", ".join(field(n, af) for n in rng.sample(MAGIC_FREE, rng.randint(0, 3)))
            if vskip:
                planted.clear()
                planted.update(before[0])
                for k in range(before[1], len(flags)):
                    flags[k] = True
            vs.append("%s%s%s" % ("#[darling(skip)] " if vskip else "", vn, body))
        src = "enum R%s%s { %s }" % (generics, where, ", ".join(vs))
    else:
        af = [True]
        names = rng.sample(MAGIC_FREE, rng.randint(1, 5))
        attrs = "#[darling(attributes(a))] " if trait != "FromMeta" else ""
        src = "%sstruct R%s%s { %s }" % (attrs, generics, where, ", ".join(field(n, af) for n in names))
    own = {p: (0 if not own_bounds[p] else own_bounds[p].count("+") + 1) for p in declared}
    return trait, src, declared, sorted(planted), flags, own, "FromMeta"


def bounds_part(R, prop, binary, tier):
    """the impl-header half: the conversion-trait bound is added to exactly the declared type parameters used by parsed fields"""
    n = 700 if tier == "quick" else 12000
    cases = []
    for i in range(n):
        trait, src, declared, planted, flags, own, conv = gen_bound_decl(R.rng)
        cases.append({"id": i, "op": "derive", "trait": trait, "src": src, "declared": declared, "planted": planted, "flags": flags, "own": own,
                      "conv": conv})
    results = vlib.run_harness(binary, cases)
    terms, keep, rejected = [], [], 0
    for c in cases:
        r = results.get(c["id"], {})
        if r.get("unparsed") or not r.get("impls"):
            rejected += 1
            continue
        body = r["echo"]["body"]
        flds = []
        if body["t"] == "struct":
            flds = body["fields"]["fields"]
        elif body["t"] == "enum":
            for v in body["variants"]:
                flds += v["fields"]["fields"]
        if len(flds) != len(c["flags"]):
            R.violation("render-error", "field count mismatch for %s" % c["src"], {"case": c, "failed": "generator"}, found_input=False)
            continue
        nodes = [f["ty"] for f, sk in zip(flds, c["flags"]) if not sk]
        im = r["impls"][0]
        # the conversion trait: the trait the parsed fields are converted with (FromMeta; for a newtype, the derived trait itself)
        conv = "darling :: %s" % c["conv"]
        observed = sorted(p for p, bs in im["param_bounds"] if any(b.replace(":: darling", "darling").strip() == conv for b in bs))
        # no other conversion-trait bound, and the receiver's own bounds and where-clause are repeated unchanged
        for p, bs in im["param_bounds"]:
            rest = [b for b in bs if b.replace(":: darling", "darling").strip() != conv]
            stray = [b for b in rest if "darling ::" in b]
            if stray:
                R.violation("header", "impl header bounds %s by %s although its field is converted with %s: derive(%s) on `%s`" % (
                    p, stray, c["conv"], c["trait"], c["src"]), {"case": c, "observation": im, "failed": "impl header comparison"})
            if p in c["own"] and not stray and len(rest) != c["own"][p]:
                R.violation("header", "impl header changed the receiver's own bounds on %s: %s (the declaration has %d)" % (p, rest, c["own"][p]),
                            {"case": c, "observation": im, "failed": "impl header comparison"})
        if (im.get("where") or "").replace(" ", "") != (r["echo"].get("where_toks") or "").replace(" ", ""):
            R.violation("header", "impl header changed the where-clause: %r vs %r" % (im.get("where"), r["echo"].get("where_toks")),
                        {"case": c, "observation": im, "failed": "impl header comparison"})
        terms.append("{| u_lifetimes := false; u_declare := false; u_set := %s; u_nodes := %s; u_expected := %s; u_obs := %s |}" % (
            clist([cstr(x) for x in c["declared"]]), clist([c_node(x) for x in nodes]), clist([cstr(x) for x in c["planted"]]),
            "(Some %s)" % clist([cstr(x) for x in observed])))
        keep.append(c)
    bad, errors = vlib.coq_eval(prop, HEADER, terms, "run19 %s", tag="bounds")
    vlib.decide(R, terms, bad, errors,
                describe=lambda i: "derive(%s) on `%s` (parameters used by parsed fields: %s)" % (keep[i]["trait"], keep[i]["src"], keep[i]["planted"]),
                model_body="Eval vm_compute in (model_usage c, u_obs c, u_expected c).",
                key_fn=lambda i: "impl-bounds",
                size_fn=lambda i: len(keep[i]["src"]),
                header=HEADER, results=results, cases=keep,
                failed_holds="holds19 on the impl header: the conversion-trait bound is on exactly the declared parameters used by parsed (non-skipped) fields of non-skipped variants",
                failed_agree="correspondence agree19 (impl header vs Usage/Usage.v over the parsed fields' types)")
    return {"evaluations": len(keep), "rejected_or_unparsed": rejected,
            "nontrivial": sum(1 for c in keep if c["planted"] and any(c["flags"])),
            "enums": sum(1 for c in keep if c["src"].startswith("enum")), "samples": [{k: c[k] for k in ("trait", "src", "planted")} for c in keep[:3]]}


def run(tier, seed, replay=None):
    prop = "C19"
    R = vlib.Run(prop, tier, seed)
    R.proof_coverage(vlib.proof_step(prop))
    binary, log = vlib.build_harness()
    if binary is None:
        R.violation("harness-build", "harness does not build against /repo: " + log[-1500:],
                    {"failed": "cargo build vh-rt", "log": log[-4000:]}, found_input=False)
        return R.finish()
    n = 5000 if tier == "quick" else 80000
    cases = []
    bcov = None
    if replay:
        rc = json.load(open(replay))["case"]
        if rc.get("op") == "derive":
            # replay of an impl-header case
            R.rng.seed(0)
            results = vlib.run_harness(binary, [dict(rc, id=0)])
            print(json.dumps(results.get(0, {}).get("impls"), indent=1)[:2000])
            return R.finish()
        cases = [rc]
    else:
        bcov = bounds_part(R, prop, binary, tier)
    while len(cases) < n and not replay:
        declare = R.rng.random() < 0.5
        lifetimes = R.rng.random() < 0.35
        set_tp = R.rng.sample(TPARAMS, R.rng.randint(0, len(TPARAMS)))
        set_lt = R.rng.sample(LTS, R.rng.randint(0, len(LTS)))
        g = Gen(R.rng, set_tp, set_lt, declare)
        k = 1 if R.rng.random() < 0.7 else R.rng.randint(0, 5)
        types = [g.ty(R.rng.choice([0, 1, 2, 3, 4, 5])) for _ in range(k)]
        cases.append({"op": "usage", "types": types, "collection": k != 1, "declare": declare, "lifetimes": lifetimes,
                      "set": set_lt if lifetimes else set_tp,
                      "expected": sorted(g.used_lt if lifetimes else g.used_tp)})
    for i, c in enumerate(cases):
        c["id"] = i
    results = vlib.run_harness(binary, cases)
    terms, keep, unparsed = [], [], 0
    kinds = {}
    for c in cases:
        r = results.get(c["id"], {})
        if "unparsed" in r:
            unparsed += 1
            continue
        if "nodes" not in r:
            R.violation("harness-error", "harness could not run %s: %s" % (json.dumps(c), json.dumps(r)[:300]),
                        {"case": c, "result": r, "failed": "harness observation"}, found_input=False)
            continue
        node_stats(r["nodes"], kinds)
        obs = copt(r.get("hits"), lambda l: clist([cstr(x) for x in l]))
        terms.append("{| u_lifetimes := %s; u_declare := %s; u_set := %s; u_nodes := %s; u_expected := %s; u_obs := %s |}" % (
            cbool(c["lifetimes"]), cbool(c["declare"]), clist([cstr(x) for x in c["set"]]),
            clist([c_node(x) for x in r["nodes"]]), clist([cstr(x) for x in c["expected"]]), obs))
        keep.append(c)
    bad, errors = vlib.coq_eval(prop, HEADER, terms, "run19 %s")
    vlib.decide(R, terms, bad, errors,
                describe=lambda i: json.dumps({k: v for k, v in keep[i].items() if k not in ("id", "op")}),
                model_body="Eval vm_compute in (model_usage c, u_obs c, u_expected c).",
                key_fn=lambda i: "usage:%s" % ("lifetimes" if keep[i]["lifetimes"] else "type-params"),
                size_fn=lambda i: sum(len(t) for t in keep[i]["types"]),
                header=HEADER, results=results, cases=keep,
                failed_holds="holds19 (Exec/UsageCase.v): exactly the parameters planted at use positions, none outside the query set",
                failed_agree="correspondence agree19 (Exec/UsageCase.v) with Usage/Usage.v")
    R.coverage.update({
        "evaluations": len(keep) + (bcov or {}).get("evaluations", 0),
        "distinct_nontrivial": len({json.dumps([c["types"], c["set"], c["declare"], c["lifetimes"]]) for c in keep
                                    if c["expected"] or any(len(t) > 12 for t in c["types"])}) + (bcov or {}).get("nontrivial", 0),
        "rule": "types from a grammar over every syn::Type form valid in field position (depth <= 5): slices, arrays, pointers, references, bare fns, "
                "tuples, parens, paths with angle-bracketed / parenthesized arguments, associated types and constraints, trait objects, impl Trait, "
                "qualified self, macros, inferred / never; parameters planted at use positions (leading segment, generic arguments, ...) and at "
                "non-use positions (path tails, global paths, macro bodies, const-expression arguments, array lengths, qself for BoundImpl); random "
                "query sets, both purposes, type parameters and lifetimes, single types and collections; the generator's planting is the ground truth. "
                "Impl-header half: generic receiver declarations (six derives; structs and enums with unit / newtype / struct variants; skip on fields and variants, flatten, "
                "multiple, default; own bounds, lifetimes, consts, where-clauses) through derive::*: the set of parameters that received the conversion-trait bound must equal "
                "the parameters planted in parsed fields, own bounds and where-clause unchanged; non-trivial = a planted parameter and a skipped field",
        "samples": [{k: v for k, v in keep[i].items() if k not in ("id", "op")} for i in (0, 1, len(keep) // 2, len(keep) - 1) if i < len(keep)],
        "distribution": {"node_kinds": kinds, "sources_rejected_by_syn": unparsed,
                         "lifetimes_cases": sum(1 for c in keep if c["lifetimes"]),
                         "collections": sum(1 for c in keep if c["collection"]),
                         "declare": sum(1 for c in keep if c["declare"]), "impl_headers": bcov},
    })
    R.assumptions = ["the mirror of syn::Type into the model's node language (harness/vh-rt/src/usage.rs) is trusted glue",
                     "impl headers are read from the token stream derive::* returns (no rustc involved)"]
    return R.finish()
