"""C13 — syntax-typed values reproduce the user's tokens; quoted and bare forms agree."""
import json
import vlib
import syntax
import convlib

TARGETS = ["syn::Expr", "syn::Path", "syn::Ident", "IdentString", "Callable", "syn::Meta", "PathList", "Vec<syn::WherePredicate>",
           "syn::ExprArray", "syn::ExprPath", "syn::ExprRange",
           "syn::Type", "syn::TypeArray", "syn::TypeBareFn", "syn::TypeImplTrait", "syn::TypeInfer", "syn::TypeMacro", "syn::TypeNever",
           "syn::TypeParen", "syn::TypePath", "syn::TypePtr", "syn::TypeReference", "syn::TypeSlice", "syn::TypeTraitObject",
           "syn::TypeTuple", "syn::Visibility", "syn::WhereClause",
           "syn::Lit", "syn::LitInt", "syn::LitFloat", "syn::LitStr", "syn::LitByte", "syn::LitByteStr", "syn::LitChar", "syn::LitBool",
           "Vec<syn::LitInt>", "Vec<syn::LitFloat>", "Vec<syn::LitStr>", "Vec<syn::LitByte>", "Vec<syn::LitByteStr>", "Vec<syn::LitChar>",
           "Vec<syn::LitBool>", "Vec<u8>", "Vec<u16>", "Vec<u32>", "Vec<u64>", "Vec<usize>",
           "Punctuated<syn::Path,Comma>", "Punctuated<syn::Ident,Comma>", "helper:preserve", "helper:parse"]
# targets whose whole behaviour spec13 states (the rest are compared with the model only)
SPEC_TARGETS = {"syn::Expr", "syn::Path", "syn::Ident", "IdentString", "Callable", "syn::ExprArray", "syn::ExprPath", "syn::ExprRange",
                "syn::Lit", "syn::LitInt", "syn::LitFloat", "syn::LitStr", "syn::LitByte", "syn::LitByteStr", "syn::LitChar", "syn::LitBool",
                "helper:preserve", "helper:parse"} | {t for t in TARGETS if t.startswith("syn::Type") or t in ("syn::Visibility", "syn::WhereClause")}

PATHS = ["<T>::x", "a", "::a", "::r#type", "::a::<u8>", "foo::<u8>", "foo::<Vec<u8>>", "a::b", "::a::b", "a::b::<T>", "Vec<u8>", "<T as Tr>::x", "self", "Self::A", "crate::m::f", "r#type", "r#type::x",
         "std::collections::HashMap<String, Vec<u8>>", "a::<'x>::b"]
IDENTS = ["a", "foo_bar", "r#type", "r#match", "Self", "self", "_x", "x1"]
EXPRS = ["a + b", "f(x, y)", "|a| a + 1", "|a, b| a", "{ 1 }", "[1, 2, 3]", "[]", "[a, b::c]", "1..2", "..", "..=5", "a..", "(a, b)",
         "!x", "-x", "&x", "x.y", "x.y()", "x[0]", "x as u8", "if a { b } else { c }", "match x { _ => 1 }", "S { a: 1 }", "m!(x)",
         "move || 1", "async { 1 }", "x?", "return 1", "(a)", "a = b", "loop {}", "unsafe { f() }", "5", "-5", "1.5", "true", "'c'",
         "b'x'", "b\"bytes\"", "\"str\""]
TYPES = ["u8", "Vec<u8>", "[u8; 4]", "[u8]", "&'a T", "&mut T", "*const u8", "*mut u8", "fn(u8) -> u8", "impl Tr", "dyn Tr + Send",
         "(u8, u16)", "()", "!", "_", "m!(x)", "(u8)", "<T as Tr>::X", "pub", "pub(crate)", "pub(in a::b)", "", "where T: Clone",
         "where T: Clone, U: 'a", "T: Clone", "T: Clone, 'a: 'b", "for<'a> F: Fn(&'a u8)"]
STRS = ["a::b", "a", "a + b", "1 +", "", " ", "1, 2", "[1, 2, 3]", "[1u8, 2_0]", "[a]", "[\"x\", \"y\"]", "['a']", "[1.5]", "[true, false]",
        "a, b::c", "a,", "r#type", "1..2", "|a| a", "fn", "(", "\"nested\""]
LITS = ["1", "1u8", "0xFF", "1.5", "1e3f32", "\"s\"", "r#\"raw\"#", "'c'", "b'x'", "b\"bs\"", "true", "false", "c\"cs\"", "-1", "-1.5"]
FORMS = ["x", "x()", "x(a)", "x(a, b::c)", "x(\"l\")", "x(1, 2)", "x(\"a\", \"b\")", "x(1.5, 2.5)", "x('a', 'b')", "x(true)", "x(b'a')",
         "x(a = 1)", "x(a b)", "x(a, 1)"]


def gen(rng, tier):
    cases = []
    n = None if tier == "thorough" else 14
    pool_bare = PATHS + IDENTS + EXPRS + LITS
    pool_q = PATHS + IDENTS + EXPRS[:20] + TYPES + STRS
    for t in TARGETS:
        bare = pool_bare if n is None else rng.sample(pool_bare, n)
        if n is not None and t in ("syn::Path", "syn::Ident", "syn::Expr", "Callable", "syn::ExprPath"):
            bare = list(dict.fromkeys(bare + PATHS + ["<T>::x", "<T as a::Tr>::y::z"]))      # path-shaped targets see every path shape
        for e in bare:
            cases.append({"target": t, "src": "x = " + e, "entry": "meta"})
            if rng.random() < (0.6 if n is None else 0.35):
                cases.append({"target": t, "src": "x = " + e, "entry": "meta", "group_value": rng.choice([1, 2, 2, 3])})
        quoted = pool_q if n is None else rng.sample(pool_q, n)
        for s in quoted:
            cases.append({"target": t, "src": "x = " + json.dumps(s), "entry": "meta"})
            if rng.random() < (0.5 if n is None else 0.3):
                cases.append({"target": t, "src": "x = " + json.dumps(s), "entry": "meta", "group_value": rng.choice([1, 2, 3])})
        for f in (FORMS if n is None else rng.sample(FORMS, 5)):
            cases.append({"target": t, "src": f, "entry": "meta"})
        if not t.startswith("helper:"):
            for l in rng.sample(LITS, 3):
                cases.append({"target": t, "src": l, "entry": "nested"})
            cases.append({"target": t, "src": "", "entry": "none"})
    return cases


def run(tier, seed, replay=None):
    prop = "C13"
    R = vlib.Run(prop, tier, seed)
    R.proof_coverage(vlib.proof_step(prop))
    if replay:
        c = json.load(open(replay))["case"]
        raw = [{k: c[k] for k in ("target", "src", "entry", "group_value") if k in c}]
    else:
        raw = gen(R.rng, tier)

    def term(c, r):
        spec = "true" if c["target"] in SPEC_TARGETS else "false"
        return "(%s, %s)" % (spec, syntax.c_case_conv(c["target"], c["entry"], r))

    def key(c, r):
        if c["target"] == "Callable" and c.get("group_value"):
            return "callable-invisible-group"
        if c["target"] == "helper:parse" and "= \"" not in c["src"]:
            return "parse_str_literal-non-string-literal"
        return "syn-target:%s" % c["target"]

    out = convlib.run_conv_property(
        R, prop, raw,
        "run13 %s",
        term,
        describe=lambda c: "%s on `%s` (%s%s)" % (c["target"], c["src"], c["entry"],
                                                  ", grouped x%d" % c["group_value"] if c.get("group_value") else ""),
        key_fn=key,
        model_body="Eval vm_compute in (model_conv (snd c), spec13 (reparse_of (k_or (snd c))) (k_target (snd c)) (k_input (snd c))).",
        failed_holds="holds13 (Exec/ConvCase.v): bare tokens kept / string contents re-parsed by the target's grammar / else spanned rejection")
    if out is None:
        return R.finish()
    keep = out["keep"]
    R.coverage.update({
        "evaluations": len(keep),
        "distinct_nontrivial": len({(c["target"], c["src"], c.get("group_value", 0)) for c in keep if c["src"].startswith("x = ")}),
        "rule": "every syntax-valued target of core/src/from_meta.rs and core/src/util x a grammar of paths (leading ::, generics, qself), "
                "identifiers (raw, keywords), expressions (binary, calls, closures, blocks, arrays, ranges, ...), types, visibilities, "
                "where-clauses and literals, each bare, quoted, and wrapped in 1-3 invisible groups, plus word / list / nested-literal / absent "
                "forms; spec13 is evaluated for the targets whose whole table the property states, all targets are compared with the model; "
                "non-trivial = a name-value item",
        "samples": [keep[i] for i in (0, len(keep) // 3, len(keep) // 2, len(keep) - 1) if i < len(keep)],
        "distribution": {"outcomes": out["outcomes"], "targets": len({c["target"] for c in keep}),
                         "grouped": sum(1 for c in keep if c.get("group_value")), "sources_rejected_by_syn": out["unparsed"]},
    })
    R.assumptions = ["what syn's grammars accept and how syn prints tokens are oracles (per-case tables computed with syn alone)",
                     "invisible groups are built with proc-macro2 (Delimiter::None) spanning the value, as macro_rules! substitution does"]
    return R.finish()
