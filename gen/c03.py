"""C03 — errors carry the most specific source span and never lose it.
Three parts: (A) the error algebra with spans compared (with_span / at / multiple / flatten / diagnostics),
(B) derived receivers on faulty inputs (every leaf spanned, inside the item at fault, equal to a node's own range),
(C) built-in scalar targets (rejections spanned inside the offending value)."""
import json
import vlib
import syntax
import recvlib
import recvprop
import c02
import c04
import c11


def scalar_part(R, prop, rng, tier, replay_case=None):
    binary, log = vlib.build_harness()
    if binary is None:
        return None
    raw = [replay_case] if replay_case else c11.gen_cases(rng, "quick")
    if tier == "quick" and not replay_case:
        raw = [c for c in raw if c["entry"] != "none"]
        raw = rng.sample(raw, min(len(raw), 2500))
    cases = [dict(c, id=i, op="conv") for i, c in enumerate(raw)]
    results = vlib.run_harness(binary, cases)
    terms, keep = [], []
    for c in cases:
        r = results.get(c["id"], {})
        if "unparsed" in r or "error" in r or "harness_panic" in r or "crash" in r:
            continue
        keep.append(c)
        terms.append(syntax.c_case_conv(c["target"], c["entry"], r))
    bad, errors = vlib.coq_eval(prop, recvlib.HEADER_RECV, terms, "run_conv_counted holds03conv nontrivial03conv %s", tag="scalar")
    vlib.decide(R, terms, bad, errors,
                describe=lambda i: "target %s on `%s` (%s)" % (keep[i]["target"], keep[i]["src"], keep[i]["entry"]),
                model_body="Eval vm_compute in (model_conv c).",
                key_fn=lambda i: "scalar-span:%s" % keep[i]["target"],
                size_fn=lambda i: len(keep[i]["src"]),
                header=recvlib.HEADER_RECV, results=results, cases=keep,
                failed_holds="holds03conv (Exec/RecvCase.v): rejection spanned inside the offending value",
                failed_agree="correspondence agree_conv (Exec/ConvCase.v), spans included")
    return {"evaluations": len(keep), "rejections": vlib.LAST_COUNT}


def run(tier, seed, replay=None):
    prop = "C03"
    R = vlib.Run(prop, tier, seed)
    R.proof_coverage(vlib.proof_step(prop))
    rp = json.load(open(replay)) if replay else None
    part = (rp or {}).get("case", {}).get("part") if rp else None
    covA = covB = covC = None
    # (A) error algebra, spans compared
    if not rp or "expr" in rp["case"]:
        covA = c04.part(R, tier, rp["case"]["expr"] if rp else None, True, prop, n=1500 if tier == "quick" else 30000, tag="alg")
    # (B) derived receivers
    if not rp or ("target" in rp["case"] and rp["case"]["target"] in recvlib.BY_NAME):
        if rp:
            c = rp["case"]
            raw = [{k: c[k] for k in ("target", "src", "entry", "pairs", "injected", "group_all") if k in c}]
        else:
            raw = c02.gen_cases(R.rng, "quick" if tier == "quick" else "thorough")
            if tier == "quick":
                raw = [c for c in raw if c["injected"] > 0]
            raw = recvprop.all_with_pairs(raw)
        out = recvprop.recv_part(
            R, prop, raw, "holds03", "nontrivial03", key_fn=lambda c, r: "derived-span",
            failed="holds03 (Exec/RecvCase.v): every leaf spanned, inside the input item, equal to the range of a node of the input, and inside a "
                   "top-level item with the leaf's first location name", tag="recv")
        if out is not None:
            keep = out["keep"]
            covB = {"evaluations": len(keep), "with_errors": out["nontrivial"], "outcomes": out["outcomes"],
                    "receivers": len({c["target"] for c in keep}), "samples": recvprop.samples(keep)}
    # (C) scalar targets
    if not rp or ("target" in rp["case"] and rp["case"]["target"] not in recvlib.BY_NAME):
        rc = None
        if rp:
            c = rp["case"]
            rc = {"target": c["target"], "src": c["src"], "entry": c.get("entry", "meta")}
        covC = scalar_part(R, prop, R.rng, tier, rc)
    total = sum((c or {}).get("evaluations", 0) for c in (covA, covB, covC))
    R.coverage.update({
        "evaluations": total,
        "distinct_nontrivial": (covA or {}).get("distinct_nontrivial", 0) + (covB or {}).get("with_errors", 0) + (covC or {}).get("rejections", 0),
        "rule": "(A) random with_span/at/multiple/flatten/iter/clone/add_alts histories over distinct real spans, spans compared on the value, on flatten(), on "
                "syn::Error::from and on write_errors tokens; (B) corpus receivers x inputs with 1-8 injected mistakes: every flattened leaf must be spanned, inside "
                "the input, equal to the range of some node of the input, and inside a top-level item named by the leaf's first location; (C) built-in scalar "
                "targets x every rejected literal kind / form: leaves spanned inside the value. non-trivial = A: bundles with >= 4 nodes, B: an error outcome, "
                "C: a rejection",
        "samples": ((covB or {}).get("samples") or [])[:3],
        "distribution": {"algebra": {k: v for k, v in (covA or {}).items() if k in ("evaluations", "distinct_nontrivial", "distribution")},
                         "derived": {k: v for k, v in (covB or {}).items() if k != "samples"}, "scalars": covC},
    })
    R.assumptions = ["spans are proc-macro2 fallback spans (span-locations) of tokens parsed from source text; Span::join behaves as in the fallback implementation",
                     "which NODE is the most specific one for each mistake kind is fixed by the model (compared exactly), the predicate itself only demands containment"]
    return R.finish()
