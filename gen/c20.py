"""C20 — every emitted implementation compiles and is self-contained.  PARTIAL: that emitted code type-checks is OBSERVED (generated
crates compiled against /repo's working tree), only the hygiene clause is proved (Properties/C20.v)."""
import json
import os
import re
import subprocess
import vlib
import c20gen

CRATE = os.path.join(vlib.HARNESS, "vh-c20")
LIB = os.path.join(CRATE, "src", "generated.rs")
ALLOWED_SCOPED = {"e", "lit", "struct_check", "enum_check", "variant_errors", "variant", "data", "struct_data"}
MODEL_LOCALS = None


def cargo_build(features=None, timeout=1500):
    cmd = ["cargo", "build", "--offline", "-q", "-p", "vh-c20", "--target-dir", "target", "--message-format=json"]
    if features:
        cmd += ["--features", ",".join(features)]
    lock = vlib._lock("cargo-target")
    try:
        p = subprocess.run(cmd, cwd=vlib.HARNESS, env=vlib.ENV, stdout=subprocess.PIPE, stderr=subprocess.PIPE, text=True, timeout=timeout)
    finally:
        lock.close()
    msgs = []
    for line in p.stdout.split("\n"):
        if not line.startswith("{"):
            continue
        try:
            o = json.loads(line)
        except ValueError:
            continue
        if o.get("reason") == "compiler-message" and o["message"].get("level") == "error":
            msgs.append(o["message"])
    return p.returncode, msgs, p.stderr


def lines_of(msg):
    """all line numbers of src/lib.rs a diagnostic touches (following macro expansions)"""
    out = set()

    def walk(sp):
        if sp.get("file_name", "").endswith("vh-c20/src/generated.rs"):
            out.add(sp["line_start"])
        exp = sp.get("expansion")
        if exp and exp.get("span"):
            walk(exp["span"])
    for sp in msg.get("spans", []):
        walk(sp)
    for ch in msg.get("children", []):
        out |= lines_of(ch)
    return out


def decl_of(src):
    """the receiver's item (struct / enum with its darling attributes) out of the module source, for derive::*"""
    m = re.search(r"#\[derive\(([^)]*)\)\]\s*(.*)\}\s*$", src, flags=re.S)
    item = m.group(2).rstrip()
    return item[:item.rfind("}") + 1] if not item.endswith("}") else item


def classify(msgs):
    text = " | ".join(m["message"] for m in msgs)
    if "cannot find `syn`" in text:
        return "path-not-via-reexport:syn"
    if "receiver's own vec!" in text or "receiver's own format!" in text:
        return "unqualified-macro"
    return None


def run(tier, seed, replay=None):
    prop = "C20"
    R = vlib.Run(prop, tier, seed)
    R.proof_coverage(vlib.proof_step(prop))
    n = 150 if tier == "quick" else 600
    if replay:
        rc = json.load(open(replay))["case"]
        recvs = [dict(rc, idx=0, src=re.sub(r"\bm\d+\b", "m0", rc["src"]).replace("super::m0::", "super::m0::"))]
        # a replayed receiver may reference earlier modules: regenerate its run and keep everything up to it
        g = c20gen.Gen(rc.get("gen_seed", seed))
        allr = g.generate(rc.get("gen_n", n))
        recvs = allr[:rc["idx"] + 1]
    else:
        g = c20gen.Gen(seed)
        recvs = g.generate(n)
    src, first_line = c20gen.render(recvs)
    os.makedirs(os.path.dirname(LIB), exist_ok=True)
    with open(LIB, "w") as f:
        f.write(src + "\n".join(c20gen.NEGATIVES.values()) + "\n")
    # ---- (1) the emitted code compiles, in every surrounding
    rc, msgs, stderr = cargo_build()
    by_recv = {}
    unplaced = []
    for m in msgs:
        ls = [l for l in lines_of(m) if first_line <= l < first_line + len(recvs)]
        if not ls:
            unplaced.append(m)
            continue
        for l in ls:
            by_recv.setdefault(l - first_line, []).append(m)
    if rc != 0 and not msgs:
        R.violation("c20-build", "the generated crate does not build and rustc reported no structured error: " + stderr[-1500:],
                    {"failed": "cargo build vh-c20", "log": stderr[-4000:]}, found_input=False)
    classes = {}
    for idx, ms in sorted(by_recv.items()):
        r = recvs[idx]
        cls = classify(ms) or ("compile:%s:%s" % (r["shadow"], (ms[0].get("code") or {}).get("code")))
        classes.setdefault(cls, []).append(idx)
    for cls, idxs in classes.items():
        i = min(idxs, key=lambda k: len(recvs[k]["src"]))
        r = recvs[i]
        R.violation(cls, "the implementation emitted for an accepted receiver does not compile (%d receivers of this class; smallest: module m%d, derive %s, surroundings `%s`): %s"
                    % (len(idxs), r["idx"], r["trait"], r["shadow"], " | ".join(m["message"] for m in by_recv[i])[:600]),
                    {"case": dict(r, gen_seed=seed, gen_n=n), "rustc": [m.get("rendered", m["message"])[:1500] for m in by_recv[i][:4]],
                     "failed": "cargo build of harness/vh-c20 against /repo"})
    for m in unplaced[:2]:
        R.violation("c20-unplaced", "rustc error that could not be attributed to a receiver: " + m["message"][:400],
                    {"rustc": m.get("rendered", "")[:2000], "failed": "cargo build vh-c20"}, found_input=False)
    # ---- (2) user callables cannot capture generated locals: these crates must NOT compile
    negatives = {}
    if not replay:
        for neg in sorted(c20gen.NEGATIVES):
            nrc, nmsgs, _ = cargo_build(features=[neg])
            own = [m for m in nmsgs if any(l >= first_line + len(recvs) for l in lines_of(m))]
            negatives[neg] = {"compiles": nrc == 0, "errors": [m["message"][:120] for m in own[:2]]}
            if nrc == 0 or (not own and not classes):
                R.violation("capture:" + neg, "a user callable that refers to a local of the emitted function was accepted by rustc: " + c20gen.NEGATIVES[neg],
                            {"case": {"src": c20gen.NEGATIVES[neg], "feature": neg}, "failed": "cargo build vh-c20 --features " + neg})
    # ---- (3) inventory of the emitted code (derive::* as a function, no rustc): paths, locals, unqualified names
    binary, log = vlib.build_harness()
    inv = {"receivers": 0, "path_roots": {}, "double_underscore_locals": set(), "scoped_binders": set(), "unqualified": {}}
    if binary is None:
        R.violation("harness-build", "harness does not build against /repo: " + log[-1500:], {"failed": "cargo build vh-rt", "log": log[-4000:]}, found_input=False)
    else:
        cases = []
        for r in recvs:
            try:
                cases.append({"id": r["idx"], "op": "derive", "trait": r["trait"], "src": decl_of(r["src"])})
            except AttributeError:
                pass
        res = vlib.run_harness(binary, cases)
        model_locals = set(re.findall(r'"(__[A-Za-z_]+)"', open(os.path.join(vlib.COQ, "theories", "Options", "Emit.v")).read()))
        bad_paths, bad_binders, bad_bare, rejected = {}, {}, {}, []
        for c in cases:
            o = res.get(c["id"], {})
            if o.get("diags") or "panic" in o:
                rejected.append(c["id"])
                continue
            if not o.get("impls"):
                continue
            inv["receivers"] += 1
            im = o["impls"][0]
            users = set(o["echo"].get("type_params", []))
            body = o["echo"]["body"]
            flds = []
            if body["t"] == "struct":
                flds = body["fields"]["fields"]
            elif body["t"] == "enum":
                for v in body["variants"]:
                    flds += v["fields"]["fields"]
            users |= {f["ident"] for f in flds if f["ident"]}
            for p in im["paths"]:
                inv["path_roots"][p] = inv["path_roots"].get(p, 0) + 1
                if p != "darling":
                    bad_paths.setdefault(p, []).append(c["id"])
            for b in im["binders"]:
                if b.startswith("__"):
                    inv["double_underscore_locals"].add(b)
                    if b not in model_locals:
                        bad_binders.setdefault(b, []).append(c["id"])
                elif b in users or (b == "m" and "with-closure" in recvs[c["id"]]["features"]):
                    pass                    # the receiver's own names; the parameter of the receiver's own `with` closure
                elif b in ALLOWED_SCOPED:
                    inv["scoped_binders"].add(b)
                else:
                    bad_binders.setdefault(b, []).append(c["id"])
            for b in im["bare"]:
                if b in ("Self",) or b in users or b == o["echo"]["ident"] or b.startswith("R"):
                    continue
                inv["unqualified"][b] = inv["unqualified"].get(b, 0) + 1
                bad_bare.setdefault(b, []).append(c["id"])
        for p, ids in bad_paths.items():
            r = recvs[min(ids, key=lambda k: len(recvs[k]["src"]))]
            R.violation("path-not-via-reexport:" + p, "emitted code names a dependency outside darling's re-exports: a global path rooted at `::%s` (%d receivers; smallest: m%d, %s)"
                        % (p, len(ids), r["idx"], r["trait"]), {"case": dict(r, gen_seed=seed, gen_n=n), "failed": "emitted-path inventory (derive::* output)"})
        for b, ids in bad_bare.items():
            r = recvs[min(ids, key=lambda k: len(recvs[k]["src"]))]
            R.violation("unqualified-name" if not b.endswith("!") else "unqualified-macro",
                        "emitted code uses `%s` unqualified, so an item of that name in the receiver's module captures it (%d receivers; smallest: m%d, %s)"
                        % (b, len(ids), r["idx"], r["trait"]), {"case": dict(r, gen_seed=seed, gen_n=n), "failed": "unqualified-name inventory (derive::* output)"})
        for b, ids in bad_binders.items():
            r = recvs[min(ids, key=lambda k: len(recvs[k]["src"]))]
            R.violation("binder:" + b, "emitted code binds `%s`, which is neither a receiver field, a double-underscore local of Options/Emit.v nor a known inner-scope binder "
                        "(%d receivers; smallest: m%d)" % (b, len(ids), r["idx"]),
                        {"case": dict(r, gen_seed=seed, gen_n=n), "failed": "binder inventory vs Options/Emit.v generated_locals"}, found_input=False)
        if rejected:
            r = recvs[rejected[0]]
            R.violation("generator-invalid", "a generated declaration was rejected by the derive (generator bug, not a violation): m%d" % r["idx"],
                        {"case": r, "failed": "gen/c20gen.py"}, found_input=False)
    feats, shadows, traits = {}, {}, {}
    for r in recvs:
        shadows[r["shadow"]] = shadows.get(r["shadow"], 0) + 1
        traits[r["trait"]] = traits.get(r["trait"], 0) + 1
        for f in r["features"]:
            feats[f] = feats.get(f, 0) + 1
    R.coverage.update({
        "evaluations": len(recvs) + len(negatives) + inv["receivers"],
        "distinct_nontrivial": len({r["src"] for r in recvs if len(r["features"]) >= 2}),
        "rule": "accepted receiver declarations drawn from the option space of C01 / C09 / C16 (six derives; named / newtype-free structs and enums with unit / newtype / struct variants; "
                "rename, rename_all, default at both levels, skip, multiple, flatten of nested receivers and of type parameters, with as path and closure, map / and_then, "
                "allow_unknown_fields, from_word / from_none closures, bound, generics used in every position, magic members, supports, forward_attrs) with field / variant names that are raw "
                "identifiers, darling's option words or the un-prefixed names of generated locals, each in its own module whose surroundings shadow prelude variants, prelude types, the vec! / "
                "format! macros or the crate names; compiled as ONE crate that depends on darling only; plus three callables that must fail to compile; plus the inventory of paths, "
                "binders and unqualified names of the code derive::* emits for the same declarations; non-trivial = at least two option features",
        "samples": [{"idx": r["idx"], "trait": r["trait"], "shadow": r["shadow"], "src": r["src"][:400]} for r in recvs[6:9]],
        "distribution": {"traits": traits, "surroundings": shadows, "features": feats, "generic_receivers": sum(1 for r in recvs if r["generic"]),
                         "receivers_with_compile_errors": len(by_recv), "negatives": negatives,
                         "inventory": {k: (sorted(v) if isinstance(v, set) else v) for k, v in inv.items()}},
    })
    R.assumptions = ["rustc is the judge of 'type-checks'; it is observed, not modelled", "field types used by the generator meet the documented trait requirements",
                     "the generator's declarations are accepted by the derives (checked through derive::*)"]
    return R.finish(level="proof")
