"""C06 — the derive macros are total: they diagnose, they never crash."""
import json
import vlib
import declgen
import derivelib
from vlib import cstr

CORPUS = ["#[darling] struct R { a: u8 }", '#[darling = "x"] struct R { a: u8 }', '#[darling("x")] struct R { a: u8 }',
          "#[darling(a b)] struct R { a: u8 }", "struct R(u8, u8);", "struct R();", "enum R {}", "enum R { A(u8, u8) }", "enum R { A() }",
          "union R { a: u8 }", "struct R { #[darling] a: u8 }", "struct R { #[darling(1)] a: u8 }", "enum R { #[darling(a b)] A }",
          "struct R;", "struct R {}", "enum R { #[darling(skip)] A(u8, u8), B }", "struct R<T> { a: Box<dyn ~const Tr<T>> }",
          "#[darling(default = 1, bogus, rename_all = \"x\")] struct R { #[darling(flatten, flatten)] a: u8, #[darling(flatten)] b: u8 }"]
# every variant body under every spelling of `skip` (only a variant that IS skipped may have an unrepresentable body)
CORPUS += ["enum R { %s A%s, B }" % (opt, body)
           for opt in ("", "#[darling(skip)]", "#[darling(skip = true)]", "#[darling(skip = false)]", "#[darling(skip())]")
           for body in ("", "(u8)", "(u8, u8)", "()", " { a: u8 }", " {}")]


def run(tier, seed, replay=None):
    prop = "C06"
    R = vlib.Run(prop, tier, seed)
    R.proof_coverage(vlib.proof_step(prop))
    n = 5000 if tier == "quick" else 100000
    raw = []
    if replay:
        c = json.load(open(replay))["case"]
        raw = [{"trait": c["trait"], "src": c["src"]}]
    else:
        for src in CORPUS:
            for t in declgen.TRAITS:
                raw.append({"trait": t, "src": src})
        while len(raw) < n:
            t = R.rng.choice(declgen.TRAITS)
            messy = R.rng.choice([0.0, 0.2, 0.5, 0.9])
            raw.append({"trait": t, "src": declgen.gen_decl(R.rng, t, messy), "messy": messy})
    import panic_sites
    known_sites, unknown_sites, vanished = panic_sites.check()
    if unknown_sites and not replay:
        R.violation("panic-site-inventory", "panic sites in /repo that the totality model does not know (gen/panic_sites.json): %s"
                    % json.dumps(unknown_sites)[:900],
                    {"failed": "panic-site inventory for C06_outcome_exclusive", "unknown_sites": unknown_sites}, found_input=False)
    keep, results, unparsed = derivelib.run_derive_cases(R, raw)
    if keep is None:
        return R.finish()
    terms = [derivelib.c_case_derive(c, results[c["id"]]) for c in keep]
    bad, errors = vlib.coq_eval(prop, derivelib.HEADER_DERIVE, terms, "run_derive holds06c %s", shard=150)

    def key(i):
        r = results[keep[i]["id"]]
        if "panic" in r:
            return "derive-panic:" + derivelib.panic_class(r["panic"])
        return "derive-outcome"

    vlib.decide(R, terms, bad, errors,
                describe=lambda i: "derive(%s) on `%s`: %s" % (keep[i]["trait"], keep[i]["src"],
                                                               json.dumps({k: v for k, v in results[keep[i]["id"]].items() if k in ("panic", "diags")})[:300]),
                model_body="Eval vm_compute in (match model_derive c with Accepted _ _ => (true, []) | Rejected es => (false, diags_of es) end).",
                key_fn=key, size_fn=lambda i: len(keep[i]["src"]),
                header=derivelib.HEADER_DERIVE, results=results, cases=keep,
                failed_holds="holds06 (Exec/DeriveObs.v): exactly one impl of the requested trait xor >= 1 diagnostics, no panic",
                failed_agree="correspondence with Options/Resolve.v")
    outcomes = {"impl": 0, "diagnostics": 0, "panic": 0}
    for c in keep:
        r = results[c["id"]]
        outcomes["panic" if "panic" in r else "impl" if r.get("impls") else "diagnostics"] += 1
    per_trait = {}
    for c in keep:
        per_trait[c["trait"]] = per_trait.get(c["trait"], 0) + 1
    R.coverage.update({
        "evaluations": len(keep),
        "distinct_nontrivial": len({(c["trait"], c["src"]) for c in keep if "darling" in c["src"]}),
        "rule": "DeriveInput items from a grammar: unit / newtype / n-tuple / named / empty structs, enums with 0-5 mixed variants, unions, generics; "
                "#[darling ...] on container, variant and field positions with bodies from well-formed option lists to malformed values, unknown "
                "names, literal items, repetitions, bare / name-value / brace / bracket forms and arbitrary token trees; each through the six "
                "derives called as functions under catch_unwind; non-trivial = has a darling attribute",
        "samples": [keep[i] for i in (0, len(keep) // 3, len(keep) // 2, len(keep) - 1) if i < len(keep)],
        "distribution": {"outcomes": outcomes, "per_trait": per_trait, "sources_rejected_by_syn": unparsed,
                         "panic_sites_inventoried": known_sites, "panic_sites_unknown": len(unknown_sites),
                         "panic_sites_removed_since_inventory": len(vanished)},
    })
    R.assumptions = ["panics inside syn / quote / proc-macro2 themselves are outside the model (sampled only)",
                     "the proc-macro entry points of darling_macro are thin wrappers over darling_core::derive::* (read, not run)"]
    return R.finish()


