"""Shared machinery of every property check: proof step, harness runs, Coq-side comparison,
evidence, violation / known-finding reporting.  See DESIGN.md section 3.1."""
import concurrent.futures
import fcntl
import hashlib
import json
import os
import random
import re
import subprocess
import sys
import time

ROOT = os.path.dirname(os.path.dirname(os.path.abspath(__file__)))
COQ = os.path.join(ROOT, "coq")
HARNESS = os.path.join(ROOT, "harness")
REPO = "/repo"
NPROC = min(16, os.cpu_count() or 4)

FORBIDDEN = re.compile(
    r"\b(Admitted|admit|give_up|Axiom|Axioms|Parameter|Parameters|Conjecture|Conjectures|"
    r"Unset\s+Guard\s+Checking|bypass_check|Admit\s+Obligations|Unset\s+Universe\s+Checking|"
    r"Unset\s+Positivity\s+Checking|type_in_type|Extract|Extraction)\b")

LAST_COUNT = 0
ALLOWED_AXIOMS = set()  # every property theorem is expected to be closed under the global context

ENV = dict(os.environ, CARGO_NET_OFFLINE="true")


# --------------------------------------------------------------------------------------------
# rendering Python values as Gallina terms
# --------------------------------------------------------------------------------------------
def cstr(s):
    """A Gallina string literal (byte-wise; `"` is doubled, nothing else is special)."""
    return '"' + s.replace('"', '""') + '"'


def cN(n):
    return "%d%%N" % n


def cZ(n):
    return "(%d)%%Z" % n


def cnat(n):
    return "%d%%nat" % n


def cbool(b):
    return "true" if b else "false"


def clist(items):
    return "[" + "; ".join(items) + "]"


def copt(x, f=lambda v: v):
    return "None" if x is None else "(Some %s)" % f(x)


def cspan(s):
    return "(%s, %s, %s, %s)" % tuple(cN(x) for x in s)


def cospan(s):
    return copt(s, cspan)


def capp(ctor, *args):
    return "(" + " ".join([ctor] + list(args)) + ")" if args else ctor


# --------------------------------------------------------------------------------------------
# proof step
# --------------------------------------------------------------------------------------------
def _lock(name):
    os.makedirs(os.path.join(ROOT, ".locks"), exist_ok=True)
    f = open(os.path.join(ROOT, ".locks", name), "w")
    fcntl.flock(f, fcntl.LOCK_EX)
    return f


def ensure_makefile():
    mk = os.path.join(COQ, "Makefile")
    cp = os.path.join(COQ, "_CoqProject")
    if not os.path.exists(mk) or os.path.getmtime(mk) < os.path.getmtime(cp):
        subprocess.run(["coq_makefile", "-f", "_CoqProject", "-o", "Makefile"], cwd=COQ, check=True,
                       stdout=subprocess.DEVNULL, stderr=subprocess.DEVNULL)


def theorem_names(prop):
    src = open(os.path.join(COQ, "theories", "Properties", prop + ".v")).read()
    return re.findall(r"^\s*Theorem\s+([A-Za-z0-9_']+)", src, flags=re.M)


def scan_forbidden():
    """Every .v under coq/theories (comments stripped) must be free of the forbidden vernacular.
    `Variable`/`Hypothesis` are allowed only inside a Section (checked by nesting depth)."""
    bad = []
    for dp, _, fs in os.walk(os.path.join(COQ, "theories")):
        for fn in fs:
            if not fn.endswith(".v"):
                continue
            path = os.path.join(dp, fn)
            text = strip_comments(open(path).read())
            depth = 0
            for ln, line in enumerate(text.split("\n"), 1):
                if re.match(r"\s*Section\b", line):
                    depth += 1
                for m in FORBIDDEN.finditer(line):
                    bad.append("%s:%d: %s" % (os.path.relpath(path, ROOT), ln, m.group(1)))
                m = re.match(r"\s*(Variable|Variables|Hypothesis|Hypotheses|Context)\b", line)
                if m and depth == 0:
                    bad.append("%s:%d: %s outside a section" % (os.path.relpath(path, ROOT), ln, m.group(1)))
                if re.match(r"\s*End\s+[A-Za-z0-9_]+\s*\.", line) and depth > 0:
                    # module ends are not counted as we use no modules; sections only
                    depth -= 1
    return bad


def strip_comments(text):
    out = []
    depth = 0
    i = 0
    in_str = False
    while i < len(text):
        if not in_str and text.startswith("(*", i):
            depth += 1
            i += 2
            continue
        if not in_str and depth > 0 and text.startswith("*)", i):
            depth -= 1
            i += 2
            continue
        c = text[i]
        if depth == 0:
            if c == '"':
                in_str = not in_str
            out.append(c)
        elif c == "\n":
            out.append(c)
        i += 1
    return "".join(out)


def proof_step(prop, timeout=1500):
    """Build Properties/<prop>.vo (and everything it depends on), re-check the assumptions of
    every theorem in it, scan the development for forbidden vernacular.  Returns a dict."""
    t0 = time.time()
    res = {"ok": True, "problems": [], "theorems": [], "assumptions": {}}
    lock = _lock("coq")
    try:
        ensure_makefile()
        target = "theories/Properties/%s.vo" % prop
        p = subprocess.run(["make", "-j%d" % NPROC, target], cwd=COQ, stdout=subprocess.PIPE,
                           stderr=subprocess.STDOUT, text=True, timeout=timeout)
        if p.returncode != 0:
            res["ok"] = False
            res["problems"].append("coq build of %s failed:\n%s" % (target, p.stdout[-3000:]))
            res["build_log"] = p.stdout[-6000:]
            return res
        # the model used by the correspondence check must be compiled as well
        p = subprocess.run(["make", "-j%d" % NPROC], cwd=COQ, stdout=subprocess.PIPE,
                           stderr=subprocess.STDOUT, text=True, timeout=timeout)
        if p.returncode != 0:
            res["ok"] = False
            res["problems"].append("coq build failed:\n%s" % p.stdout[-3000:])
            return res
    finally:
        lock.close()
    names = theorem_names(prop)
    res["theorems"] = names
    tmpd = os.path.join(COQ, ".cases", prop)
    os.makedirs(tmpd, exist_ok=True)
    af = os.path.join(tmpd, "assumptions_%s.v" % prop)
    with open(af, "w") as f:
        f.write("From DarlingModel Require Import Properties.%s.\n" % prop)
        for n in names:
            f.write('Goal True. idtac "@@%s". exact I. Qed.\nPrint Assumptions %s.\n' % (n, n))
    p = subprocess.run(["coqc", "-noglob", "-Q", "theories", "DarlingModel", af], cwd=COQ,
                       stdout=subprocess.PIPE, stderr=subprocess.STDOUT, text=True, timeout=600)
    if p.returncode != 0:
        res["ok"] = False
        res["problems"].append("Print Assumptions run failed:\n" + p.stdout[-2000:])
        return res
    chunks = re.split(r"@@([A-Za-z0-9_']+)\n", p.stdout)
    for i in range(1, len(chunks), 2):
        name, body = chunks[i], chunks[i + 1].strip()
        if body.startswith("Closed under the global context"):
            res["assumptions"][name] = []
        else:
            axs = re.findall(r"^([A-Za-z0-9_.']+)\s*:", body, flags=re.M)
            res["assumptions"][name] = axs
            extra = [a for a in axs if a not in ALLOWED_AXIOMS]
            if extra:
                res["ok"] = False
                res["problems"].append("theorem %s depends on axioms %s" % (name, extra))
    for n in names:
        if n not in res["assumptions"]:
            res["ok"] = False
            res["problems"].append("no Print Assumptions output for %s" % n)
    bad = scan_forbidden()
    if bad:
        res["ok"] = False
        res["problems"].append("forbidden vernacular: " + "; ".join(bad[:10]))
    src = open(os.path.join(COQ, "theories", "Properties", prop + ".v"), "rb").read()
    res["statements_sha256"] = hashlib.sha256(src).hexdigest()
    res["wall_s"] = round(time.time() - t0, 2)
    return res


# --------------------------------------------------------------------------------------------
# implementation side
# --------------------------------------------------------------------------------------------
def build_harness(package="vh-rt", features=None, no_default=False, release=False, rustflags=None,
                  timeout=1500):
    """cargo build of a harness crate against /repo's working tree.  Returns (binary, log)."""
    lockfile = os.path.join(HARNESS, "Cargo.lock")
    if not os.path.exists(lockfile):
        subprocess.run(["cp", os.path.join(REPO, "Cargo.lock"), lockfile], check=True)
    cmd = ["cargo", "build", "--offline", "-q", "-p", package]
    tdir = "target"
    if no_default:
        cmd.append("--no-default-features")
        tdir = "target-nodefault"
    if features:
        cmd += ["--features", ",".join(features)]
    if release:
        cmd.append("--release")
    cmd += ["--target-dir", tdir]
    env = dict(ENV)
    if rustflags:
        env["RUSTFLAGS"] = rustflags
    lock = _lock("cargo-" + tdir)
    try:
        p = subprocess.run(cmd, cwd=HARNESS, env=env, stdout=subprocess.PIPE, stderr=subprocess.STDOUT,
                           text=True, timeout=timeout)
    finally:
        lock.close()
    if p.returncode != 0:
        return None, p.stdout
    return os.path.join(HARNESS, tdir, "release" if release else "debug", package), p.stdout


def run_harness(binary, cases, procs=NPROC, timeout=1200):
    """Feed `cases` (dicts with an "id") to the harness; returns {id: result}."""
    if not cases:
        return {}
    procs = max(1, min(procs, (len(cases) + 49) // 50))
    chunks = [cases[i::procs] for i in range(procs)]

    def one(chunk):
        outs = {}
        todo = list(chunk)
        while todo:
            data = "\n".join(json.dumps(c) for c in todo) + "\n"
            try:
                p = subprocess.run([binary], input=data, stdout=subprocess.PIPE, stderr=subprocess.PIPE,
                                   text=True, timeout=timeout)
                rc, so, se = p.returncode, p.stdout, p.stderr
            except subprocess.TimeoutExpired as e:
                rc, so, se = -9, (e.stdout or b"").decode(errors="replace") if isinstance(e.stdout, bytes) else (e.stdout or ""), "timeout"
            for line in so.split("\n"):
                if line.strip():
                    try:
                        o = json.loads(line)
                    except ValueError:
                        continue
                    outs[o["id"]] = o
            rest = [c for c in todo if c["id"] not in outs]
            if not rest:
                break
            # the process died (abort, stack overflow, timeout) on the first unanswered case
            bad = rest[0]
            outs[bad["id"]] = {"id": bad["id"], "crash": "harness process ended with status %s: %s" % (rc, se[-300:])}
            todo = rest[1:]
        return outs

    res = {}
    with concurrent.futures.ThreadPoolExecutor(max_workers=procs) as ex:
        for outs in ex.map(one, chunks):
            res.update(outs)
    return res


# --------------------------------------------------------------------------------------------
# model side: evaluate inside Coq
# --------------------------------------------------------------------------------------------
def coq_eval(prop, header, case_terms, runner, shard=400, tag="cases", timeout=1200):
    """case_terms: list of Gallina terms (one per case, in index order).
    runner: a format string with one %s receiving the Gallina list of the shard's cases; it must
    evaluate to the `report` string of Base/Prelude.v.
    Returns {index: (agree, holds)} for the cases that are NOT (true, true), plus a list of errors."""
    d = os.path.join(COQ, ".cases", prop)
    os.makedirs(d, exist_ok=True)
    for fn in os.listdir(d):
        if fn.startswith(tag + "_"):
            os.remove(os.path.join(d, fn))
    shards = [(k, case_terms[k:k + shard]) for k in range(0, len(case_terms), shard)]

    def one(arg):
        base, terms = arg
        path = os.path.join(d, "%s_%d.v" % (tag, base))
        with open(path, "w") as f:
            f.write(header + "\n")
            for j, t in enumerate(terms):
                f.write("Definition c%d := %s.\n" % (j, t))
            f.write("Eval vm_compute in (%s).\n" % (runner % clist(["c%d" % j for j in range(len(terms))])))
        p = subprocess.run(["coqc", "-noglob", "-Q", "theories", "DarlingModel", path], cwd=COQ,
                           stdout=subprocess.PIPE, stderr=subprocess.STDOUT, text=True, timeout=timeout)
        if p.returncode != 0:
            return base, None, p.stdout[-3000:]
        m = re.search(r'=\s*"((?:[^"]|"")*)"', p.stdout, flags=re.S)
        if not m:
            return base, None, "unparseable coqc output: " + p.stdout[-500:]
        return base, re.sub(r"\s+", "", m.group(1)), None

    bad, errors = {}, []
    global LAST_COUNT
    LAST_COUNT = 0
    with concurrent.futures.ThreadPoolExecutor(max_workers=NPROC) as ex:
        for base, rep, err in ex.map(one, shards):
            if err:
                errors.append("shard %d: %s" % (base, err))
                continue
            if "#" in rep:
                rep, cnt = rep.rsplit("#", 1)
                LAST_COUNT += int(cnt)
            for item in filter(None, rep.split(";")):
                idx, flags = item.split(":")
                bad[base + int(idx)] = (flags[0] == "T", flags[1] == "T")
    return bad, errors


def coq_print(prop, header, body, timeout=300):
    """Run a small Coq file and return its raw output (used to print the model's value of a
    failing case into the replay file)."""
    d = os.path.join(COQ, ".cases", prop)
    os.makedirs(d, exist_ok=True)
    path = os.path.join(d, "print_%d.v" % os.getpid())
    with open(path, "w") as f:
        f.write(header + "\n" + body + "\n")
    p = subprocess.run(["coqc", "-noglob", "-Q", "theories", "DarlingModel", path], cwd=COQ,
                       stdout=subprocess.PIPE, stderr=subprocess.STDOUT, text=True, timeout=timeout)
    os.remove(path)
    return p.stdout


# --------------------------------------------------------------------------------------------
# known findings, reporting, evidence
# --------------------------------------------------------------------------------------------
def known_findings(prop):
    """Lines `finding: property=<id> key=<key> <text>` of /verif/known_findings.txt."""
    out = {}
    path = os.path.join(ROOT, "known_findings.txt")
    if os.path.exists(path):
        for line in open(path):
            m = re.match(r"finding:\s+property=(\S+)\s+key=(\S+)\s+(.*)", line.strip())
            if m and m.group(1) == prop:
                out[m.group(2)] = m.group(3)
    return out


class Run:
    def __init__(self, prop, tier, seed):
        self.prop, self.tier, self.seed = prop, tier, seed
        self.t0 = time.time()
        self.rng = random.Random("%s/%d" % (prop, seed))
        self.violations = []      # (key, description, replay dict)
        self.coverage = {}
        self.assumptions = []
        self.proof = None
        os.makedirs(os.path.join(ROOT, "replays"), exist_ok=True)
        os.makedirs(os.path.join(ROOT, "evidence"), exist_ok=True)

    def violation(self, key, what, replay, found_input=True):
        self.violations.append((key, what, replay, found_input))

    def finish(self, level="proof"):
        known = known_findings(self.prop)
        printed_known = set()
        real = 0
        lines = []
        for n, (key, what, replay, found) in enumerate(self.violations):
            if key in known:
                if key not in printed_known:
                    lines.append("KNOWN-FINDING: property=%s %s" % (self.prop, known[key]))
                    printed_known.add(key)
                continue
            real += 1
            if real > 5:
                continue
            path = os.path.join(ROOT, "replays", "%s_%s_%d_%d.json" % (self.prop, self.tier, self.seed, n))
            replay = dict(replay, property=self.prop, seed=self.seed, tier=self.tier, what=what, key=key)
            with open(path, "w") as f:
                json.dump(replay, f, indent=1, default=str)
            lines.append("VIOLATION property=%s replay=%s%s" % (
                self.prop, path, "" if found else " no-failing-input-found"))
            lines.append("  " + what.replace("\n", "\n  ")[:1500])
        ev = {
            "property_id": self.prop,
            "tier": self.tier,
            "seed": self.seed,
            "level": level,
            "coverage": self.coverage,
            "assumptions": self.assumptions,
            "wall_s": round(time.time() - self.t0, 2),
            "violations": real,
        }
        with open(os.path.join(ROOT, "evidence", self.prop + ".json"), "w") as f:
            json.dump(ev, f, indent=1, default=str)
        for l in lines:
            print(l)
        print("%s %s tier=%s seed=%d wall=%.1fs violations=%d known=%d" % (
            self.prop, "FAIL" if real else "ok", self.tier, self.seed, time.time() - self.t0, real,
            len(printed_known)))
        sys.stdout.flush()
        return 1 if real else 0

    def proof_coverage(self, proof, checker_extra=""):
        """Fill the proof-level keys of the evidence from a proof_step result."""
        self.proof = proof
        names = proof.get("theorems", [])
        closed = [n for n in names if proof.get("assumptions", {}).get(n) == []]
        self.coverage.update({
            "obligations": len(names),
            "discharged": len(closed) if proof.get("ok") else 0,
            "theorems": names,
            "print_assumptions": {n: (proof["assumptions"].get(n) or "Closed under the global context")
                                  for n in names if n in proof.get("assumptions", {})},
            "statements_sha256": proof.get("statements_sha256"),
            "checker_cmd": "make -C coq theories/Properties/%s.vo && coqc Print Assumptions for each theorem"
                           " && forbidden-vernacular scan%s" % (self.prop, checker_extra),
            "trusted_base": TRUSTED_BASE,
        })
        if not proof.get("ok"):
            self.violation("proof-broken", "proof obligations of %s no longer check: %s"
                           % (self.prop, " | ".join(proof["problems"])[:1200]),
                           {"failed": "Properties/%s.v" % self.prop, "problems": proof["problems"]},
                           found_input=False)


TRUSTED_BASE = [
    "Coq 8.16.1 kernel (coqc; vm_compute used to evaluate the model on test cases; no native_compute)",
    "no axioms: every property theorem must print 'Closed under the global context'",
    "hand-written Gallina model of /repo (modelled, not verified): tied to the code only by the per-run correspondence check",
    "correspondence glue: Python generators/renderers (gen/), Rust harness (harness/), observation parser",
    "external libraries as they are: syn, proc-macro2 (fallback spans with span-locations), quote, ident_case, strsim, std",
]


def decide(R, terms, bad, errors, describe, model_body, key_fn, size_fn, header, results, cases,
           failed_holds, failed_agree, max_report=3):
    """Common decision step (DESIGN.md 2.1): cases whose property predicate fails on the
    implementation's own output are violations with that case as replay; disagreements with the
    model while the predicate holds everywhere are reported as no-failing-input-found."""
    for e in errors[:3]:
        R.violation("coq-eval", "model evaluation failed: " + e[:1500], {"failed": "coqc cases", "log": e},
                    found_input=False)
    holds_fail = [i for i, (a, h) in bad.items() if not h]
    agree_fail = [i for i, (a, h) in bad.items() if h and not a]

    def replay_of(i, failed):
        model = coq_print(R.prop, header, "Definition c := %s.\n%s" % (terms[i], model_body))
        return {"case": cases[i], "observation": results.get(cases[i]["id"]), "model": model[-8000:],
                "agree": bad[i][0], "holds": bad[i][1], "failed": failed}

    if os.environ.get("VERIF_DEBUG"):
        with open(os.path.join(ROOT, "replays", "debug_%s.txt" % R.prop), "w") as f:
            for i in sorted(bad, key=size_fn):
                f.write("agree=%s holds=%s %s\n" % (bad[i][0], bad[i][1], describe(i)[:600]))
    seen_keys = {}
    for i in sorted(holds_fail, key=size_fn):
        k = key_fn(i)
        seen_keys.setdefault(k, []).append(i)
    for k, idxs in seen_keys.items():
        for i in idxs[:max_report if len(seen_keys) == 1 else 1]:
            R.violation(k, "%s fails on the implementation's own output for %s" % (R.prop, describe(i)[:800]),
                        replay_of(i, failed_holds))
    if agree_fail:
        i = min(agree_fail, key=size_fn)
        R.violation("correspondence",
                    "model and implementation disagree on %d cases (smallest: %s) but the property predicate "
                    "holds on every observed output" % (len(agree_fail), describe(i)[:800]),
                    replay_of(i, failed_agree), found_input=False)
    R.coverage["disagreements"] = len(agree_fail)
    R.coverage["property_failures"] = len(holds_fail)
    return holds_fail, agree_fail
