"""C12 — wrapper types are transparent over the wrapped conversion."""
import json
import vlib
import syntax
import convlib

INNER = ["bool", "u8", "i64", "String", "char", "syn::Path", "syn::Ident", "syn::Expr", "syn::LitStr", "PathList",
         "HashMap<String,String>"]
W = ["Option<{}>", "Box<{}>", "Rc<{}>", "Arc<{}>", "RefCell<{}>", "SpannedValue<{}>", "WithOriginal<{},syn::Meta>",
     "Override<{}>", "darling::Result<{}>", "Result<{},syn::Meta>"]
ITEMS = ["x", "x()", "x(a)", "x(a, b::c)", "x(k = \"v\", j = \"w\")", "x(k = \"v\", k = \"w\")", "x(1)", "x(a b)",
         "x = true", "x = false", "x = 5", "x = -5", "x = 300", "x = \"7\"", "x = \"hello\"", "x = 'c'", "x = \"c\"",
         "x = 1.5", "x = a", "x = a::b", "x = ::a::b<T>", "x = a + b", "x = \"a + b\"", "x = \"a::b\"", "x = \"1 +\"",
         "x = |a| a", "x = [1, 2]", "x = b\"ab\"", "x = r#type", "x = \"r#type\"", "x = \"\""]
NESTED = ["true", "5", "\"s\"", "'c'", "1.5", "a", "a = 1", "a(b)"]


def gen(rng, tier):
    cases = []
    for w in W:
        for i in INNER:
            t = w.format(i)
            items = ITEMS if tier == "thorough" else rng.sample(ITEMS, 12)
            for s in items:
                cases.append({"target": t, "inner": i, "src": s, "entry": "meta"})
            for s in (NESTED if tier == "thorough" else rng.sample(NESTED, 2)):
                cases.append({"target": t, "inner": i, "src": s, "entry": "nested"})
            cases.append({"target": t, "inner": i, "src": "", "entry": "none"})
            if rng.random() < (1.0 if tier == "thorough" else 0.3):
                cases.append({"target": t, "inner": i, "src": rng.choice(["x = a::b", "x = a + b", "x = 5"]),
                              "entry": "meta", "group_value": rng.choice([1, 2])})
    for w1 in W:
        for w2 in W:
            for i in ["u8", "syn::Expr"]:
                inner = w2.format(i)
                t = w1.format(inner)
                for s in (ITEMS if tier == "thorough" else rng.sample(ITEMS, 4)):
                    cases.append({"target": t, "inner": inner, "src": s, "entry": "meta"})
                cases.append({"target": t, "inner": inner, "src": "", "entry": "none"})
    return cases


def inner_overrides_from_meta(inner):
    head, _ = syntax.split_generic(inner.replace(" ", ""))
    return head in syntax.WRAPPERS or inner in ("syn::Meta", "Flag", "AtomicBool", "IdentString")


def run(tier, seed, replay=None):
    prop = "C12"
    R = vlib.Run(prop, tier, seed)
    R.proof_coverage(vlib.proof_step(prop))
    if replay:
        c = json.load(open(replay))["case"]
        raw = [{k: c[k] for k in ("target", "inner", "src", "entry", "group_value") if k in c}]
    else:
        raw = gen(R.rng, tier)

    def term(c, r):
        wk, inner = syntax.wrapper_of(c["target"])
        return "{| w_case := %s; w_wrapper := %s; w_inner := %s |}" % (
            syntax.c_case_conv(c["target"], c["entry"], r), wk, syntax.c_conv_obs(r["inner_out"]))

    def key(c, r):
        wk, inner = syntax.wrapper_of(c["target"])
        if wk == "WOverride" and inner_overrides_from_meta(inner):
            return "override-over-from_meta-overrider"
        return "wrapper:%s" % wk

    out = convlib.run_conv_property(
        R, prop, raw, "run_wrap %s", term,
        describe=lambda c: "%s (inner %s) on `%s` (%s%s)" % (c["target"], c["inner"], c["src"], c["entry"],
                                                           ", grouped x%d" % c["group_value"] if c.get("group_value") else ""),
        key_fn=key,
        model_body="Eval vm_compute in (model_conv (w_case c), w_inner c).",
        failed_holds="holds12 (Exec/ConvCase.v): the wrapped target against its inner target on the same item")
    if out is None:
        return R.finish()
    keep = out["keep"]
    R.coverage.update({
        "evaluations": len(keep),
        "distinct_nontrivial": len({(c["target"], c["src"], c["entry"], c.get("group_value", 0)) for c in keep if c["entry"] != "none"}),
        "rule": "10 wrappers x 11 inner targets, and all 100 two-level compositions over {u8, syn::Expr}, x items in word / list / "
                "name-value-literal / name-value-expression / malformed-list / nested-literal / absent form (+ invisible groups); "
                "W<T>::from_meta(m) and T::from_meta(m) on the same m from the real code, the model evaluated inside Coq; "
                "non-trivial = not the absent form; distinct by (target, source, entry)",
        "samples": [keep[i] for i in (0, len(keep) // 3, len(keep) // 2, len(keep) - 1) if i < len(keep)],
        "distribution": {"outcomes": out["outcomes"], "targets": len({c["target"] for c in keep}),
                         "sources_rejected_by_syn": out["unparsed"]},
    })
    R.assumptions = ["receiver-typed inner targets (derived struct / enum) are exercised by the corpus properties, not here",
                     "syn's own parsers on string contents are oracles (per-case tables)"]
    return R.finish()
