"""Panic-site inventory (C06 / C07): every panic!/unreachable!/unimplemented!/todo!/.unwrap()/.expect( in the non-test code of
core/src and macro/src (the bodies of quote! included), keyed by (file, normalised line).  A site that is not in
gen/panic_sites.json is a correspondence break: the totality theorems were proved of a model that does not know it."""
import json
import os
import re

PAT = re.compile(r"panic!|unreachable!|unimplemented!|todo!|\.unwrap\(\)|\.expect\(")
INV = os.path.join(os.path.dirname(os.path.abspath(__file__)), "panic_sites.json")


def scan(repo="/repo"):
    sites = []
    for root in ("core/src", "macro/src", "src"):
        for dp, _, fs in os.walk(os.path.join(repo, root)):
            for fn in sorted(fs):
                if not fn.endswith(".rs"):
                    continue
                path = os.path.join(dp, fn)
                rel = os.path.relpath(path, repo)
                text = open(path).read()
                # drop the #[cfg(test)] mod tests { .. } tail and doc comments
                m = re.search(r"#\[cfg\(test\)\]\s*mod\s+\w+\s*\{", text)
                if m:
                    text = text[:m.start()]
                for line in text.split("\n"):
                    s = line.strip()
                    if s.startswith("//"):
                        continue
                    if PAT.search(s):
                        sites.append([rel, re.sub(r"\s+", " ", s)])
    return sites


def check():
    """returns (known count, list of unknown sites, list of vanished sites)"""
    inv = json.load(open(INV))
    known = {(s["file"], s["text"]) for s in inv}
    cur = scan()
    unknown = [s for s in cur if tuple(s) not in known]
    curset = {tuple(s) for s in cur}
    vanished = [s for s in inv if (s["file"], s["text"]) not in curset]
    return len(cur) - len(unknown), unknown, vanished


if __name__ == "__main__":
    import sys
    if len(sys.argv) > 1 and sys.argv[1] == "init":
        old = {(s["file"], s["text"]): s.get("discharge", "") for s in (json.load(open(INV)) if os.path.exists(INV) else [])}
        json.dump([{"file": f, "text": t, "discharge": old.get((f, t), "TODO")} for f, t in scan()], open(INV, "w"), indent=1)
    print(check())
