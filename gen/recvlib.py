"""The receiver corpus on the driver side: Gallina rendering of receivers, input generators (mistake-free and with
injected mistakes), shared case construction for the run-time properties."""
import json
import os
import vlib
import syntax
from vlib import cstr, cbool, clist, copt, cN, capp

ROOT = os.path.dirname(os.path.dirname(os.path.abspath(__file__)))
CORPUS = json.load(open(os.path.join(ROOT, "gen", "corpus.json")))
RECVS = CORPUS["receivers"]
BY_NAME = {x["name"]: x for x in RECVS}
CONSTS = CORPUS["consts"]

HEADER_RECV = """From DarlingModel Require Import Base.Prelude Base.Syntax Err.ErrTree Conv.Targets Run.Recv Exec.ErrObs Exec.ConvCase Exec.RecvCase.
Local Open Scope string_scope."""

LEAF_TARGET = {"bool": "bool", "u8": "u8", "i64": "i64", "String": "String", "char": "char", "Flag": "Flag",
               "HashMap<String,u8>": "HashMap<String,u8>", "HashMap<String,String>": "HashMap<String,String>"}


# ---------------------------------------------------------------- Gallina rendering
def c_finfo(f):
    d = "None"
    if f["default"]:
        d = "(Some DxTrait)" if f["default"][0] == "trait" else "(Some (DxExplicit %s))" % cstr(f["default"][1])
    return "(mkFI %s %s %s %s %s %s %s %s)" % (
        cstr(f["ident"]), cstr(f["name"]), d, copt(f["with"], cstr),
        copt(f["post"], lambda p: "(%s, %s)" % (cbool(p[0]), cstr(p[1]))), cbool(f["skip"]), cbool(f["multiple"]), cbool(f["flatten"]))


def c_cinfo(x):
    c = x["cinfo"]
    d = "None"
    if c["default"]:
        d = "(Some CdTrait)" if c["default"][0] == "trait" else "(Some (CdExplicit %s))" % cstr(c["default"][1])
    return "(mkCI %s %s %s %s %s %s)" % (cstr(x["name"]), d, copt(c["post"], lambda p: "(%s, %s)" % (cbool(p[0]), cstr(p[1]))),
                                         cbool(c["auk"]), copt(c["from_word"], cstr), copt(c["from_none"], cstr))


def inherit_defaults(fields, x):
    """with_inherited: own default > container default > Default for skipped fields"""
    out = []
    for f in fields:
        g = dict(f)
        if not g["default"]:
            if x is not None and x["cinfo"]["default"]:
                g["default"] = ["inherit"]
            elif g["skip"]:
                g["default"] = ["trait"]
        out.append(g)
    return out


def c_finfo_inh(f):
    if f["default"] and f["default"][0] == "inherit":
        g = dict(f, default=None)
        return c_finfo(g).replace("(mkFI %s %s None" % (cstr(f["ident"]), cstr(f["name"])),
                                  "(mkFI %s %s (Some DxInherit)" % (cstr(f["ident"]), cstr(f["name"])), 1)
    return c_finfo(f)


def c_ty(t):
    k = t["t"]
    if k == "leaf":
        return "(TLeaf %s)" % syntax.c_target(LEAF_TARGET[t["name"]])
    if k == "opt":
        return "(TOpt %s)" % c_ty(t["e"])
    if k == "box":
        return "(TBox %s)" % c_ty(t["e"])
    if k == "res":
        return "(TRes %s)" % c_ty(t["e"])
    return c_recv(BY_NAME[t["name"]])


def c_fields(fields, x):
    return clist(["(%s, %s)" % (c_finfo_inh(f), c_ty(f["ty"])) for f in inherit_defaults(fields, x)])


def c_recv(x):
    if x["kind"] == "struct":
        return "(TStructR %s %s)" % (c_cinfo(x), c_fields(x["fields"], x))
    if x["kind"] == "unit":
        return "(TUnitR %s)" % c_cinfo(x)
    if x["kind"] == "newtype":
        return "(TNewtypeR %s %s)" % (c_cinfo(x), c_ty(x["inner"]))
    vs = []
    wordv = None
    for v in x["variants"]:
        if v["word"] and not v["skip"] and wordv is None:        # a skipped variant is never produced, not even as the word variant
            wordv = v["ident"]
        style = {"unit": "VsUnit", "newtype": "VsNewtype", "struct": "VsStruct"}[v["style"]]
        vi = "(mkVI %s %s %s %s %s)" % (cstr(v["ident"]), cstr(v["name"]), cbool(v["skip"]), style, cbool(x["cinfo"]["auk"]))
        # fields of a struct variant inherit a container-level default (enums have none here) and Default for skipped ones
        vs.append("(%s, %s)" % (vi, c_fields(v["fields"], None)))
    return "(TEnumR %s %s %s)" % (c_cinfo(x), copt(wordv, cstr), clist(vs))


def const_names(x, acc=None):
    """names of the constant user functions reachable from receiver x"""
    acc = acc if acc is not None else set()
    c = x["cinfo"]
    for k in ("from_word", "from_none"):
        if c[k]:
            acc.add(c[k])
    if c["default"] and c["default"][0] == "explicit":
        acc.add(c["default"][1])
    def walk_ty(t):
        if t["t"] == "recv":
            const_names(BY_NAME[t["name"]], acc)
        elif "e" in t:
            walk_ty(t["e"])
    for f in x.get("fields", []):
        walk_ty(f["ty"])
    if "inner" in x:
        walk_ty(x["inner"])
    for v in x.get("variants", []):
        for f in v["fields"]:
            walk_ty(f["ty"])
    return acc


def c_const(name):
    k = CONSTS[name]
    x = BY_NAME[k["recv"]]
    if "fields" in k:
        kvs = []
        xfields = x.get("fields") or [{"multiple": False, "ty": x.get("inner")} for _ in k["fields"]]
        for (ident, val), f in zip(k["fields"], xfields):
            if val is None:
                v = "(VList [])" if f["multiple"] else "(default_of %s)" % c_ty(f["ty"])
            else:
                v = syntax.c_value(val)
            kvs.append("(%s, %s)" % (cstr(ident), v))
        v = "(VStruct %s)" % clist(kvs)
    elif k["variant"] is None:
        return "(%s, %s)" % (cstr(name), "VNone" if k["wrap"] == "from_none" else "VUnit")
    else:
        v = "(VVariant %s [])" % cstr(k["variant"])
    if k["wrap"] == "from_none":
        v = "(VSome %s)" % v
    return "(%s, %s)" % (cstr(name), v)


def all_names(x, acc=None):
    """every field / variant name reachable from x (for the similarity table)"""
    acc = acc if acc is not None else set()
    def walk_ty(t):
        if t["t"] == "recv":
            all_names(BY_NAME[t["name"]], acc)
        elif "e" in t:
            walk_ty(t["e"])
    for f in x.get("fields", []):
        acc.add(f["name"])
        walk_ty(f["ty"])
    if "inner" in x:
        walk_ty(x["inner"])
    for v in x.get("variants", []):
        acc.add(v["name"])
        for f in v["fields"]:
            acc.add(f["name"])
            walk_ty(f["ty"])
    return acc


def c_case_recv(x, case, r, sugg=True):
    echo = r.get("echo")
    inp = syntax.c_nested(echo) if echo else '(NPath (mkInfo (0%N,0%N,0%N,0%N) "") (mkPath (mkInfo (0%N,0%N,0%N,0%N) "") false []))'
    ent = {"meta": "EMeta", "nested": "ENested", "none": "ENone"}[case["entry"]]
    sim = clist(["(%s, %s, %s)" % (cstr(a), cstr(b), cN(bits)) for (a, b), bits in zip(case.get("pairs", []), r.get("sim", []))])
    return ("{| rc_ty := %s; rc_consts := %s; rc_pf := %s; rc_or := %s; rc_sugg := %s; rc_sim := %s; rc_entry := %s; "
            "rc_input := %s; rc_obs := %s |}" % (
                c_recv(x), clist([c_const(n) for n in sorted(const_names(x))]), syntax.c_pf(r.get("pf", [])),
                syntax.c_oracles(r.get("or")), cbool(sugg), sim, ent, inp, syntax.c_conv_obs(r)))


# ---------------------------------------------------------------- inputs
# names that cannot be written as a bare item name: syn's Path parser takes them only as `r#name`
# (crate / self / super / Self are accepted bare)
STRICT_KW = set("""as break const continue else enum extern false fn for if impl in let loop match mod move mut pub ref return static
struct trait true type unsafe use where while async await dyn abstract become box do final macro override priv typeof unsized
virtual yield try""".split())


def w(name):
    """how the item name `name` is written in an attribute"""
    return "r#" + name if name in STRICT_KW else name


def kebab_unreachable(name):
    if name.startswith("r#") and name[2:] in STRICT_KW:
        return False
    return "-" in name or "#" in name


def gen_value(rng, t, name, depth=0):
    """a well-formed item `name ...` for a field of type t; None when no syntax can supply it"""
    if kebab_unreachable(name):
        return None
    name = w(name)
    k = t["t"]
    if k in ("opt", "box", "res"):
        return gen_value(rng, t["e"], name, depth)
    if k == "leaf":
        n = t["name"]
        if n == "bool":
            return rng.choice([name, "%s = true" % name, "%s = false" % name, '%s = "true"' % name])
        if n == "u8":
            return rng.choice(["%s = %d" % (name, rng.randint(0, 255)), '%s = "%d"' % (name, rng.randint(0, 255)), "%s = 0x1F" % name])
        if n == "i64":
            return rng.choice(["%s = %d" % (name, rng.randint(0, 10 ** 6)), '%s = "-%d"' % (name, rng.randint(1, 99)), "%s = 7_000i64" % name,
                               "%s = -%d" % (name, rng.randint(1, 9999))])
        if n == "String":
            return '%s = "%s"' % (name, rng.choice(["s", "hello world", "", "x y", "ünï"]))
        if n == "char":
            return rng.choice(["%s = 'c'" % name, '%s = "z"' % name])
        if n == "Flag":
            return name
        if n == "HashMap<String,u8>":
            ks = rng.sample(["k1", "k2", "a::b", "zed"], rng.randint(0, 3))
            return "%s(%s)" % (name, ", ".join("%s = %d" % (k, rng.randint(0, 200)) for k in ks))
        if n == "HashMap<String,String>":
            ks = rng.sample(["k1", "k2", "zed"], rng.randint(0, 3))
            return "%s(%s)" % (name, ", ".join('%s = "v%d"' % (k, i) for i, k in enumerate(ks)))
    x = BY_NAME[t["name"]]
    return gen_recv_item(rng, x, name, depth + 1)


def gen_items(rng, fields, depth, drop_optional=0.5):
    """mistake-free items for a field list (flatten members inlined); None if a required field cannot be supplied"""
    items = []
    for f in fields:
        if f["skip"]:
            continue
        if f["flatten"]:
            tgt = BY_NAME[f["ty"]["name"]]
            while tgt["kind"] == "newtype":          # a derived newtype forwards the list to what it wraps
                tgt = BY_NAME[tgt["inner"]["name"]]
            if tgt["kind"] == "enum":
                # an enum takes exactly one of the unclaimed items
                one = gen_enum_inner(rng, tgt, depth + 1)
                if one is None:
                    return None
                items.append(one[1])
                continue
            sub = gen_items(rng, tgt["fields"], depth + 1, drop_optional)
            if sub is None:
                return None
            items += sub
            continue
        n = rng.choice([0, 1, 2, 3]) if f["multiple"] else 1
        for _ in range(n):
            it = gen_value_for_field(rng, f, depth)
            if it is None:
                if not f["multiple"]:
                    # cannot be written: fine only if it is optional
                    if field_required(f):
                        return None
                continue
            if not f["multiple"] and not field_required(f) and rng.random() < drop_optional:
                continue
            items.append(it)
    rng.shuffle(items)
    return items


def field_required(f, container_default=False):
    if f["default"] or f["skip"] or f["multiple"] or f["flatten"] or container_default:
        return False
    t = f["ty"]
    while t["t"] in ("box", "res"):
        t = t["e"]
    if t["t"] == "opt":
        return False
    if t["t"] == "leaf":
        return t["name"] != "Flag"
    x = BY_NAME[t["name"]]
    return not x["cinfo"]["from_none"]


def gen_value_for_field(rng, f, depth):
    if f["with"] in ("w_len", "w_opt_len"):
        return '%s = "%s"' % (w(f["name"]), rng.choice(["abc", "", "hello"])) if not kebab_unreachable(f["name"]) else None
    if f["with"] == "w_fail":
        return None
    if f["post"] and f["post"][1] == "a_nonempty":
        return '%s = "%s"' % (w(f["name"]), rng.choice(["abc", "q"])) if not kebab_unreachable(f["name"]) else None
    return gen_value(rng, f["ty"], f["name"], depth)


def struct_items(rng, x, depth):
    cd = bool(x["cinfo"]["default"])
    fields = [dict(f, default=f["default"] or (["inherit"] if cd else None)) for f in x["fields"]]
    return gen_items(rng, fields, depth)


def gen_recv_item(rng, x, name, depth=0):
    """a mistake-free meta item named `name` accepted by receiver x; None if impossible"""
    name = w(name)
    if x["cinfo"]["post"] and x["cinfo"]["post"][1] == "ca_fail":
        return None
    k = x["kind"]
    if k == "struct":
        items = struct_items(rng, x, depth)
        if items is None:
            return None
        return "%s(%s)" % (name, ", ".join(items))
    if k == "unit":
        return name
    if k == "newtype":
        return gen_value(rng, x["inner"], name, depth)
    # enum
    inner = gen_enum_inner(rng, x, depth, strings=True)
    if inner is None:
        return None
    return '%s = "%s"' % (name, inner[1]) if inner[0] == "str" else "%s(%s)" % (name, inner[1])


def gen_enum_inner(rng, x, depth, strings=False):
    """the single item that selects a variant of enum x: ("item", text), or ("str", name) for the string form"""
    vs = [v for v in x["variants"] if not v["skip"] and not kebab_unreachable(v["name"])]
    rng.shuffle(vs)
    for v in vs:
        if v["style"] == "unit":
            # (the choice is drawn even when unused, so that the stream of random draws does not depend on `strings`)
            as_str = rng.choice([True, False])
            return ("str", v["name"]) if (as_str and strings) else ("item", w(v["name"]))
        if v["style"] == "newtype":
            inner = gen_value(rng, v["fields"][0]["ty"], v["name"], depth + 1)
            if inner is not None:
                return ("item", inner)
        else:
            items = gen_items(rng, v["fields"], depth + 1)
            if items is not None:
                return ("item", "%s(%s)" % (w(v["name"]), ", ".join(items)))
    return None


MISTAKE_KINDS = ["unknown", "duplicate", "literal", "drop_required", "bad_value", "enum_arity", "wrong_form", "malformed", "global_path"]


def inject_mistakes(rng, src, k):
    """crude, syntax-level mistake injection into the top-level / nested item lists of `src` (a `name(...)` item)"""
    for _ in range(k):
        kind = rng.choice(MISTAKE_KINDS)
        # positions where an item list starts
        opens = [i for i, ch in enumerate(src) if ch == "("]
        if not opens:
            return src
        p = rng.choice(opens)
        if kind == "unknown":
            src = src[:p + 1] + rng.choice(["bogus = 1, ", "alpa = 2, ", "zz, ", "nme = \"x\", ", "inr(a = 1), "]) + src[p + 1:]
        elif kind == "literal":
            src = src[:p + 1] + rng.choice(['"lit", ', "5, ", "true, "]) + src[p + 1:]
        elif kind == "duplicate":
            # repeat the first item after p
            depth, j = 0, p + 1
            while j < len(src) and not (depth == 0 and src[j] in ",)"):
                depth += src[j] == "("
                depth -= src[j] == ")"
                j += 1
            item = src[p + 1:j].strip()
            if item:
                src = src[:p + 1] + item + ", " + src[p + 1:]
        elif kind == "drop_required":
            depth, j = 0, p + 1
            while j < len(src) and not (depth == 0 and src[j] in ",)"):
                depth += src[j] == "("
                depth -= src[j] == ")"
                j += 1
            end = j + 1 if j < len(src) and src[j] == "," else j
            src = src[:p + 1] + src[end:].lstrip()
        elif kind == "bad_value":
            eqs = [i for i, ch in enumerate(src) if ch == "="]
            if eqs:
                q = rng.choice(eqs)
                j = q + 1
                depth = 0
                while j < len(src) and not (depth == 0 and src[j] in ",)"):
                    depth += src[j] in "(["
                    depth -= src[j] in ")]"
                    j += 1
                src = src[:q + 1] + " " + rng.choice(["999999", "b'x'", "1.5", '"not a number"', "a + b", "-1", "'cc'".replace("cc", "q"), '""', '""']) + src[j:]
        elif kind == "malformed":
            # a list body that is not comma-separated meta syntax, at any depth
            r = rng.random()
            if r < 0.4:
                src = src[:p + 1] + rng.choice(["+ ", "= ", "a b, ", "? "]) + src[p + 1:]
            else:
                q = src.find(", ", p)
                if q >= 0:
                    src = src[:q] + " " + src[q + 2:]
                else:
                    src = src[:p + 1] + "x y" + src[p + 1:]
        elif kind == "global_path":
            # `::a` is a different path from `a`: the item becomes an unknown name (and `a` may now be missing)
            if p + 1 < len(src) and (src[p + 1].isalpha() or src[p + 1] == "_"):
                src = src[:p + 1] + "::" + src[p + 1:]
        elif kind == "enum_arity":
            src = src[:p + 1] + ")" + src[p + 1:] if rng.random() < 0.3 else src
        else:
            src = src.replace(" = true", "(true)", 1) if " = true" in src else src
    return src
