#!/usr/bin/env python3
"""Generates the corpus of ELEMENT-LEVEL receivers (FromDeriveInput, FromField, FromVariant, FromTypeParam, FromAttributes)
shared by C08, C16 (and the element-level entry points of C01/C02/C07/C20):
  gen/ecorpus.json                      descriptions (rendered to Gallina per case: Run/Outer.v)
  harness/vh-rt/src/ecorpus.rs          the same receivers as Rust: derives, Dump, user functions, dispatcher
Both are committed; regenerate with `python3 gen/ecorpusgen.py [seed]` (after gen/corpusgen.py: ordinary fields may be
FromMeta receivers of the first corpus)."""
import json
import os
import random
import sys

import corpusgen
from corpusgen import F, L, O, Rv, rust_ty, field_attr, field_rust_ty, darling_attr, has_default, apply_to_field

ROOT = os.path.dirname(os.path.dirname(os.path.abspath(__file__)))
MAGIC = {"ident", "attrs", "vis", "ty", "generics", "data", "fields", "discriminant", "bounds", "default"}

TRAIT = {"field": "FromField", "variant": "FromVariant", "type_param": "FromTypeParam", "derive_input": "FromDeriveInput",
         "attributes": "FromAttributes"}
RUN = {"field": "run_field", "variant": "run_variant", "type_param": "run_type_param", "derive_input": "run_di", "attributes": "run_attrs"}

ATTR_NAME_SETS = [["a"], ["a"], ["opt"], ["a", "b"], ["a", "b", "c"], ["a", "my::attr"], ["my::attr"], ["x", "y"], []]
FWD = [None, None, "all", "all", ["doc"], ["doc", "x"], ["keep", "my::tool"], []]
ATTRS_FIELD = [None, "plain", "plain", "fa_len", "fa_max1"]

PASS_TY = {"ident:field": "Option<syn::Ident>", "ident": "syn::Ident", "vis": "syn::Visibility", "ty": "syn::Type",
           "discriminant": "Option<syn::Expr>", "bounds": "Vec<syn::TypeParamBound>", "default": "Option<syn::Type>"}


# ---------------------------------------------------------------- element converters as Rust types
def f_rust(f):
    if isinstance(f, dict):
        if "spanned" in f:
            return "darling::util::SpannedValue<%s>" % f_rust(f["spanned"])
        return "darling::util::WithOriginal<%s, syn::Field>" % f_rust(f["with_orig"])
    return {"unit": "()", "ignored": "darling::util::Ignored", "field": "syn::Field", "type": "syn::Type", "vis": "syn::Visibility",
            "attrs": "Vec<syn::Attribute>"}.get(f, f)


def v_rust(v):
    if isinstance(v, dict):
        if "spanned" in v:
            return "darling::util::SpannedValue<%s>" % v_rust(v["spanned"])
        return "darling::util::WithOriginal<%s, syn::Variant>" % v_rust(v["with_orig"])
    return {"unit": "()", "ignored": "darling::util::Ignored", "variant": "syn::Variant", "ident": "syn::Ident",
            "attrs": "Vec<syn::Attribute>"}.get(v, v)


def tp_rust(t):
    return {"unit": "()", "ignored": "darling::util::Ignored", "syn": "syn::TypeParam", "ident": "syn::Ident", "attrs": "Vec<syn::Attribute>"}.get(t, t)


def g_rust(g):
    if isinstance(g, dict):
        if "mirror" in g:
            return "darling::ast::Generics<darling::ast::GenericParam<%s>>" % tp_rust(g["mirror"])
        if "result" in g:
            return "darling::Result<%s>" % g_rust(g["result"])
        return "darling::util::WithOriginal<%s, syn::Generics>" % g_rust(g["with_orig"])
    return {"syn": "syn::Generics", "unit": "()"}[g]


# ---------------------------------------------------------------- generation
def base(rng, name, kind, recvs, by_name, nfields=None, names=None, fwd="?", attrs_field="?", allow_cdefault=False):
    rule = rng.choice(corpusgen.RULES) if rng.random() < 0.3 else None
    c = {"rename_all": rule, "default": None, "post": None, "auk": rng.random() < 0.15, "from_word": None, "from_none": None}
    n = rng.choice([0, 1, 2, 2, 3, 4]) if nfields is None else nfields
    fields = corpusgen.gen_fields(rng, recvs, by_name, set(MAGIC), n, False, rule=rule, allow_flatten=True)
    x = {"name": name, "kind": kind, "cinfo": c, "fields": fields,
         "attr_names": rng.choice(ATTR_NAME_SETS) if names is None else names,
         "fwd": rng.choice(FWD) if fwd == "?" else fwd,
         "attrs_field": rng.choice(ATTRS_FIELD) if attrs_field == "?" else attrs_field,
         "from_ident": False, "pass": [], "generics": None, "data": None, "fields_magic": None, "supports": None}
    if x["attrs_field"] and x["fwd"] is None:
        x["fwd"] = rng.choice(["all", ["doc"], []])          # an attrs field needs forward_attrs (derive-time rule)
    if kind == "attributes" and not x["attr_names"]:
        x["attr_names"] = ["a"]                              # FromAttributes requires attributes(..)
    pr = rng.random()
    if pr < 0.08:
        c["post"] = [False, "cm_id"]
    elif pr < 0.14:
        c["post"] = [True, rng.choice(["ca_ok", "ca_fail"])]
    x["all_def"] = all(has_default(f["ty"], by_name) or f["multiple"] for f in fields)
    return x


def gen_ecorpus(seed):
    first = json.load(open(os.path.join(ROOT, "gen", "corpus.json")))
    recvs = [r for r in first["receivers"] if r["depth"] <= 2]
    by_name = {r["name"]: r for r in first["receivers"]}
    rng = random.Random(seed)
    out = []
    k = 0

    def nm():
        nonlocal k
        k += 1
        return "E%d" % (k - 1)

    def subset(pool):
        return [p for p in pool if rng.random() < 0.6]

    # field receivers
    frecvs = []
    for i in range(14):
        x = base(rng, nm(), "field", recvs, by_name)
        x["pass"] = subset(["ident", "ty", "vis"])
        if i % 5 == 4 and x["all_def"]:
            x["from_ident"] = True
            x["pass"] = [p for p in x["pass"] if p == "ident"]
            x["attrs_field"] = None if x["attrs_field"] in ("fa_len", "fa_max1") else x["attrs_field"]
        out.append(x)
        frecvs.append(x["name"])
    # type-parameter receivers
    tprecvs = []
    for i in range(6):
        x = base(rng, nm(), "type_param", recvs, by_name, nfields=rng.choice([0, 1, 2]))
        x["pass"] = subset(["ident", "bounds", "default"])
        out.append(x)
        tprecvs.append(x["name"])
    # variant receivers
    vrecvs = []
    fchoices = ["unit", "ignored", "field", "type", "vis", "attrs"] + frecvs
    for i in range(12):
        x = base(rng, nm(), "variant", recvs, by_name, nfields=rng.choice([0, 1, 2, 3]))
        x["pass"] = subset(["ident", "discriminant"])
        r = rng.random()
        if r < 0.75:
            f = rng.choice(fchoices)
            q = rng.random()
            x["fields_magic"] = {"spanned": f} if q < 0.15 else {"with_orig": f} if q < 0.3 else f
        if rng.random() < 0.3:
            x["supports"] = rng.sample(["named", "tuple", "unit", "newtype"], rng.randint(1, 3))
        out.append(x)
        vrecvs.append(x["name"])
    # derive-input receivers
    vchoices = ["unit", "ignored", "variant", "ident", "attrs"] + vrecvs
    for i in range(22):
        x = base(rng, nm(), "derive_input", recvs, by_name, nfields=rng.choice([0, 1, 2, 3]))
        x["pass"] = subset(["ident", "vis"])
        g = rng.random()
        if g < 0.2:
            x["generics"] = "syn"
        elif g < 0.45:
            x["generics"] = {"mirror": rng.choice(["syn", "ident", "unit", "attrs"] + tprecvs)}
        elif g < 0.55:
            x["generics"] = {"result": {"mirror": rng.choice(tprecvs)}}
        elif g < 0.62:
            x["generics"] = {"with_orig": "syn"}
        d = rng.random()
        if d < 0.6:
            v = rng.choice(vchoices)
            f = rng.choice(fchoices)
            if rng.random() < 0.15:
                v = {"spanned": v}
            if rng.random() < 0.15:
                f = {"with_orig": f}
            x["data"] = {"data": [v, f]}
        elif d < 0.72:
            x["data"] = {"with": rng.choice(["dw_kind", "dw_no_enum"])}
        if rng.random() < 0.3:
            x["supports"] = rng.choice([["any"], ["struct_any"], ["struct_named", "enum_unit"], ["enum_any"], ["struct_tuple", "struct_newtype", "enum_newtype"],
                                        ["struct_named", "struct_unit", "enum_named", "enum_tuple"]])
        out.append(x)
    # attribute-set receivers
    for i in range(8):
        x = base(rng, nm(), "attributes", recvs, by_name, nfields=rng.choice([1, 2, 3, 4]), allow_cdefault=True)
        if x["all_def"] and x["attrs_field"] in (None, "plain") and rng.random() < 0.5:
            x["cinfo"]["default"] = ["trait"] if rng.random() < 0.5 else ["explicit", "d_" + x["name"]]
        out.append(x)
    # directed: the degenerate extractor (no attribute names, an attrs field and a filter that forwards nothing), overlap of both lists,
    # multi-segment names everywhere
    for spec in [dict(kind="derive_input", names=[], fwd=[], attrs_field="plain"),
                 dict(kind="field", names=[], fwd=[], attrs_field="plain"),
                 dict(kind="field", names=[], fwd="all", attrs_field="plain"),
                 dict(kind="derive_input", names=["a", "keep"], fwd=["keep", "doc"], attrs_field="plain"),
                 dict(kind="variant", names=["my::attr", "a"], fwd=["my::tool", "my::attr"], attrs_field="fa_len"),
                 dict(kind="attributes", names=["a", "b::c::d"], fwd="all", attrs_field="plain"),
                 # declared GLOBAL paths select global attributes and nothing else
                 dict(kind="derive_input", names=["::a", "b"], fwd=["::keep", "a", "b"], attrs_field="plain"),
                 dict(kind="field", names=["::my::attr"], fwd=["::doc", "::my::attr"], attrs_field="fa_len"),
                 # names that are keywords: declared and written `r#name`, the same name throughout
                 dict(kind="derive_input", names=["final", "b"], fwd=["override", "doc"], attrs_field="plain"),
                 dict(kind="field", names=["final"], fwd="all", attrs_field="fa_len"),
                 dict(kind="type_param", names=["a"], fwd=["doc"], attrs_field="fa_max1")]:
        x = base(rng, nm(), spec["kind"], recvs, by_name, nfields=0 if not spec["names"] else 2, names=spec["names"], fwd=spec["fwd"],
                 attrs_field=spec["attrs_field"])
        x["cinfo"]["post"] = None
        x["pass"] = ["ident"] if spec["kind"] != "attributes" else []
        out.append(x)
    for x in out:
        x["trait"] = TRAIT[x["kind"]]
        for f in x["fields"]:
            f["name"] = f["rename"] or apply_to_field(x["cinfo"]["rename_all"], f["ident"])
    return out, first


KEYWORDS = set("as break const continue else enum extern false fn for if impl in let loop match mod move mut pub ref return static struct trait true "
               "type unsafe use where while async await dyn abstract become box do final macro override priv typeof unsized virtual yield try".split())


def kw(n):
    return "r#" + n if n in KEYWORDS else n


# ---------------------------------------------------------------- Rust rendering
def pass_ty(x, p):
    if p == "ident" and x["kind"] == "field":
        return PASS_TY["ident:field"]
    return PASS_TY[p]


def magic_order(x):
    """(name, rust type, field attribute) of the magic fields in the order the generated struct literal evaluates them"""
    k = x["kind"]
    order = {"derive_input": ["ident", "generics", "vis", "attrs", "data"], "field": ["ident", "ty", "vis", "attrs"],
             "variant": ["ident", "discriminant", "attrs", "fields"], "type_param": ["ident", "bounds", "default", "attrs"],
             "attributes": ["attrs"]}[k]
    out = []
    for m in order:
        if m == "attrs":
            if x["attrs_field"]:
                if x["attrs_field"] == "plain":
                    out.append(("attrs", "Vec<syn::Attribute>", ""))
                else:
                    out.append(("attrs", "i64", "#[darling(with = %s)] " % x["attrs_field"]))
        elif m == "generics":
            if x["generics"]:
                out.append(("generics", g_rust(x["generics"]), ""))
        elif m == "data":
            if x["data"]:
                if "with" in x["data"]:
                    out.append(("data", "String", "#[darling(with = %s)] " % x["data"]["with"]))
                else:
                    v, f = x["data"]["data"]
                    out.append(("data", "darling::ast::Data<%s, %s>" % (v_rust(v), f_rust(f)), ""))
        elif m == "fields":
            if x["fields_magic"]:
                out.append(("fields", "darling::ast::Fields<%s>" % f_rust(x["fields_magic"]), ""))
        elif m in x["pass"]:
            out.append((m, pass_ty(x, m), ""))
    return out


def container_attr(x):
    c = x["cinfo"]
    it = []
    if x["attr_names"]:
        it.append("attributes(%s)" % ", ".join(kw(n) for n in x["attr_names"]))        # a keyword name is written `r#name`
    if x["fwd"] is not None:
        it.append("forward_attrs" if x["fwd"] == "all" else "forward_attrs(%s)" % ", ".join(kw(n) for n in x["fwd"]))
    if x["supports"]:
        it.append("supports(%s)" % ", ".join(x["supports"]))
    if x["from_ident"]:
        it.append("from_ident")
    if c["rename_all"]:
        it.append('rename_all = "%s"' % c["rename_all"])
    if c["default"]:
        it.append("default" if c["default"][0] == "trait" else "default = %s" % c["default"][1])
    if c["post"]:
        it.append("%s = %s" % ("and_then" if c["post"][0] else "map", c["post"][1]))
    if c["auk"]:
        it.append("allow_unknown_fields")
    return darling_attr(it)


def render_rust(recvs, seed, first):
    by_name = {r["name"]: r for r in first["receivers"]}
    rng = random.Random(seed + 1)
    out = ["// @generated by gen/ecorpusgen.py (seed %d) - the corpus of element-level receivers" % seed,
           "#![allow(dead_code, unused_imports, non_snake_case, clippy::all)]",
           "use crate::dump::Dump;", "use crate::corpus::*;", "use serde_json::{json, Value};", "",
           "// ---- user functions for `attrs(with = ..)` and `data(with = ..)` (mirrored in Exec/ElemCase.v)",
           "pub fn fa_len(a: Vec<syn::Attribute>) -> darling::Result<i64> { Ok(a.len() as i64) }",
           "pub fn fa_max1(a: Vec<syn::Attribute>) -> darling::Result<i64> { if a.len() > 1 { Err(darling::Error::custom(\"too many attrs\")) } else { Ok(a.len() as i64) } }",
           "pub fn dw_kind(d: &syn::Data) -> darling::Result<String> { Ok(match d { syn::Data::Struct(_) => \"struct\", syn::Data::Enum(_) => \"enum\", syn::Data::Union(_) => \"union\" }.to_string()) }",
           "pub fn dw_no_enum(d: &syn::Data) -> darling::Result<String> { match d { syn::Data::Enum(_) => Err(darling::Error::custom(\"no enums\")), _ => dw_kind(d) } }", ""]
    consts = {}
    for x in recvs:
        n = x["name"]
        magic = magic_order(x)
        derives = ["darling::%s" % x["trait"]]
        if x["cinfo"]["default"] and x["cinfo"]["default"][0] == "trait":
            derives.append("Default")
        fields_src = ["%spub %s: %s" % (a, m, t) for m, t, a in magic]
        fields_src += ["%spub %s: %s" % (field_attr(f), f["ident"], field_rust_ty(f)) for f in x["fields"]]
        out.append("#[derive(%s)] %spub struct %s { %s }" % (", ".join(derives), container_attr(x), n, ", ".join(fields_src)))
        dumps = ['json!(["%s", self.%s.dump()])' % (m, m) for m, _, _ in magic]
        dumps += ['json!(["%s", self.%s.dump()])' % (f["ident"], f["ident"]) for f in x["fields"]]
        out.append("impl Dump for %s { fn dump(&self) -> Value { json!({\"t\": \"struct\", \"fs\": [%s]}) } }" % (n, ", ".join(dumps)))
        c = x["cinfo"]
        if c["default"] and c["default"][0] == "explicit":
            expr, val = corpusgen.const_value(rng, x, by_name)
            # magic fields of a FromAttributes receiver: only attrs
            extra = "".join("%s: Default::default(), " % m for m, _, _ in magic)
            expr = expr.replace("%s { " % n, "%s { %s" % (n, extra), 1)
            out.append("pub fn %s() -> %s { %s }" % (c["default"][1], n, expr))
            consts[c["default"][1]] = {"recv": n, "fields": val, "wrap": "default"}
        if x["from_ident"]:
            expr, val = corpusgen.const_value(rng, x, by_name)
            extra = ""
            for m, t, _ in magic:
                if m == "ident":
                    extra += "ident: i.clone(), "
                elif m == "attrs":
                    extra += "attrs: vec![], "
            expr = expr.replace("%s { " % n, "%s { %s" % (n, extra), 1)
            ity = "Option<syn::Ident>" if x["kind"] == "field" else "syn::Ident"
            out.append("impl From<%s> for %s { fn from(i: %s) -> Self { let _ = &i; %s } }" % (ity, n, ity, expr))
            consts["from_ident:" + n] = {"recv": n, "fields": val, "wrap": "default"}
    out.append("\npub fn dispatch(name: &str, el: &crate::elem::Elem) -> Option<Value> {")
    out.append("    match name {")
    for x in recvs:
        out.append('        "%s" => Some(crate::elem::%s::<%s>(el)),' % (x["name"], RUN[x["kind"]], x["name"]))
    out.append("        _ => None,\n    }\n}")
    return "\n".join(out) + "\n", consts


if __name__ == "__main__":
    seed = int(sys.argv[1]) if len(sys.argv) > 1 else 20260928
    recvs, first = gen_ecorpus(seed)
    rust, consts = render_rust(recvs, seed, first)
    open(os.path.join(ROOT, "harness/vh-rt/src/ecorpus.rs"), "w").write(rust)
    json.dump({"seed": seed, "receivers": recvs, "consts": consts}, open(os.path.join(ROOT, "gen/ecorpus.json"), "w"), indent=0)
    kinds = {}
    for x in recvs:
        kinds[x["kind"]] = kinds.get(x["kind"], 0) + 1
    print(len(recvs), "element-level receivers", kinds)
