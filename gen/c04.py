"""C04 — error trees: count, flatten, location paths and rendering obey their algebra."""
import json
import vlib
import errgen


def corpus():
    """Hand-picked boundary cases that always run first."""
    L = lambda t, a: {"t": "leaf", "k": {"t": t, "a": a}}
    at = lambda l, b: {"t": "at", "l": l, "b": b}
    ws = lambda s, b: {"t": "with_span", "s": s, "b": b}
    mul = lambda *bs: {"t": "multiple", "bs": list(bs)}
    fl = lambda b: {"t": "flatten", "b": b}
    return [
        L("custom", "x"),
        mul(),
        mul(L("custom", "only")),
        fl(at("foo", mul(at("world", L("unknown_field", "hello")), at("world", L("missing_field", "hell_no"))))),
        mul(L("duplicate_field", "hello"),
            mul(L("duplicate_field", "hi"), L("missing_field", "bye"), mul(L("duplicate_field", "whatsup")))),
        at("", L("custom", "empty location")),
        at("a", at("", at("b", L("custom", "mixed")))),
        ws(1, at("top", mul(L("missing_field", "x"), at("in", ws(2, {"t": "leaf", "k": {"t": "too_few_items", "n": 3}}))))),
        fl(fl(mul(mul(L("custom", "a"), L("custom", "b")), at("p", mul(L("custom", "c"), L("custom", "d")))))),
        {"t": "iter_nth", "n": 1, "b": at("p", mul(L("custom", "a"), at("q", L("custom", "b"))))},
        {"t": "iter_nth", "n": 5, "b": mul(L("custom", "a"), L("custom", "b"))},
        {"t": "iter_nth", "n": 0, "b": L("custom", "single")},
        {"t": "add_alts", "alts": ["foo", "bar"], "b": mul(L("unknown_field", "fooo"), at("deep", L("unknown_field", "baar")))},
        {"t": "unknown_alts", "name": "fooo", "alts": ["bar", "foo", "fooa"]},
        ws(0, ws(1, L("custom", "first span wins"))),
        mul(ws(3, mul(L("custom", "p"), L("custom", "q"))), L("custom", "r")),
    ]


def run(tier, seed, replay=None, with_spans=False, prop="C04"):
    R = vlib.Run(prop, tier, seed)
    proof = vlib.proof_step(prop)
    R.proof_coverage(proof)
    cov = part(R, tier, json.load(open(replay))["case"]["expr"] if replay else None, with_spans, prop)
    if cov is not None:
        R.coverage.update(cov)
    R.assumptions = ["spans are proc-macro2 fallback spans (span-locations) of tokens parsed from text",
                     "strsim::jaro_winkler enters the model as a per-case table (bit patterns of the f64 scores)"]
    return R.finish()


def part(R, tier, replay_expr, with_spans, prop, n=None, tag="cases"):
    """the error-algebra correspondence + holds04; returns the coverage dict (None if the harness does not build)"""
    binary, log = vlib.build_harness()
    if binary is None:
        R.violation("harness-build", "harness does not build against /repo: " + log[-1500:],
                    {"failed": "cargo build vh-rt", "log": log[-4000:]}, found_input=False)
        return None
    n = n or (3000 if tier == "quick" else 50000)
    exprs = []
    if replay_expr is not None:
        exprs = [replay_expr]
    else:
        exprs = corpus()
        while len(exprs) < n:
            depth = R.rng.choice([0, 1, 2, 3, 3, 4, 4, 5, 6])
            exprs.append(errgen.gen_bexpr(R.rng, depth, allow_empty=True))
    cases = [{"id": i, "op": "err_expr", "src": errgen.SPAN_SRC, "expr": e, "pairs": errgen.sim_pairs(e)}
             for i, e in enumerate(exprs)]
    results = vlib.run_harness(binary, cases)
    terms, broken = [], []
    for c in cases:
        r = results.get(c["id"])
        if r is None or "error" in r or "harness_panic" in r or "crash" in r:
            broken.append((c, r))
            terms.append(errgen.coq_case04(c, {"absent": True, "sim": []}))
        else:
            terms.append(errgen.coq_case04(c, r))
    for c, r in broken[:3]:
        R.violation("harness-error", "harness could not observe case %d: %s" % (c["id"], json.dumps(r)[:500]),
                    {"case": c, "result": r, "failed": "harness observation"}, found_input=False)
    flag = "true" if with_spans else "false"
    bad, errors = vlib.coq_eval(prop, errgen.HEADER04, terms, "run04 " + flag + " %s", tag=tag)
    vlib.decide(R, terms, bad, errors,
                describe=lambda i: "builder expression " + json.dumps(exprs[i]),
                model_body="Eval vm_compute in (model_outcome04 (c_sugg c) (sim_of (c_sim c)) (c_expr c)).",
                key_fn=lambda i: classify(exprs[i], results.get(i), with_spans),
                size_fn=lambda i: errgen.bexpr_stats(exprs[i])["nodes"],
                header=errgen.HEADER04, results=results, cases=cases,
                failed_holds="holds04 (Exec/ErrObs.v)",
                failed_agree="correspondence agree04 (Exec/ErrObs.v): the theorems of Properties/%s.v no longer apply to the code" % prop)
    # evidence
    stats = [errgen.bexpr_stats(e) for e in exprs]
    ops = {}
    for s in stats:
        for k, v in s["ops"].items():
            ops[k] = ops.get(k, 0) + v
    distinct = len({json.dumps(e, sort_keys=True) for e, s in zip(exprs, stats)
                    if s["ops"].get("multiple", 0) >= 1 and s["nodes"] >= 4})
    outcomes = {"value": 0, "panic": 0, "absent": 0}
    for c in cases:
        r = results.get(c["id"], {})
        outcomes["panic" if "panic" in r else "absent" if r.get("absent") else "value"] += 1
    return {
        "evaluations": len(cases),
        "distinct_nontrivial": distinct,
        "rule": "random builder expressions over the ten leaf kinds and at/with_span/multiple/flatten/iter_nth/clone/"
                "add_alts (arity 0-6, depth 0-6) evaluated by the real API and by eval (Err/Builder.v); compared inside Coq "
                "on len, Display, body, location path, children, flatten, flatten∘flatten, syn diagnostics, write_errors tokens%s; "
                "non-trivial = at least one bundle and >= 4 nodes; distinct by structural equality"
                % (" and spans" if with_spans else " (spans are C03's projection)"),
        "samples": [exprs[i] for i in (0, 3, 7, len(exprs) // 2, len(exprs) - 1) if i < len(exprs)],
        "distribution": {"operators": ops, "max_depth": max(s["depth"] for s in stats),
                         "max_nodes": max(s["nodes"] for s in stats), "outcomes": outcomes},
    }


def classify(expr, result, with_spans):
    """Key of a failing case for known_findings.txt (input class, never the property alone)."""
    return "err-algebra"
