//! C20: the receivers are generated per run by gen/c20.py into src/generated.rs (not committed).
#![allow(unused_macros)]
include!("generated.rs");
