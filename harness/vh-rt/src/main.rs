//! vh-rt: runs library-level correspondence cases against the darling working tree in /repo.
//! Protocol: one JSON object per input line, one JSON object per output line, same order.
use serde_json::{json, Value};
use std::io::{BufRead, Write};

mod conv;
mod corpus;
mod derive;
mod dump;
mod echo;
mod ecorpus;
mod elem;
mod errs;
mod listparse;
mod shape_recv;
mod shapes;
mod usage;
mod util;

fn dispatch(case: &Value) -> Value {
    let op = case["op"].as_str().unwrap_or("");
    match op {
        "err_expr" => errs::run_err_expr(case),
        "acc_ops" => errs::run_acc_ops(case),
        "conv" => conv::run_conv(case),
        "int_sweep" => conv::run_int_sweep(case),
        "parse_list" => listparse::run_parse_list(case),
        "shape" => shapes::run_shape(case),
        "usage" => usage::run_usage(case),
        "derive" => derive::run_derive(case),
        "elem" => elem::run_elem(case),
        _ => json!({"error": format!("unknown op {}", op)}),
    }
}

fn main() {
    std::panic::set_hook(Box::new(|_| {}));
    let stdin = std::io::stdin();
    let stdout = std::io::stdout();
    let mut out = std::io::BufWriter::new(stdout.lock());
    for line in stdin.lock().lines() {
        let line = line.expect("stdin");
        if line.trim().is_empty() {
            continue;
        }
        let case: Value = serde_json::from_str(&line).expect("json");
        let id = case["id"].clone();
        let res = match std::panic::catch_unwind(std::panic::AssertUnwindSafe(|| dispatch(&case))) {
            Ok(v) => v,
            Err(p) => json!({"harness_panic": util::panic_msg(&p)}),
        };
        let mut obj = res;
        obj["id"] = id;
        writeln!(out, "{}", obj).expect("stdout");
    }
    out.flush().unwrap();
}
