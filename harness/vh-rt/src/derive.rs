//! C06 / C10 / C19b / C20: the six derives called as ordinary functions (`darling_core::derive::*`).
use crate::util::{catch, span_json, span_opt_json};
use darling::ast::NestedMeta;
use proc_macro2::{TokenStream, TokenTree};
use quote::ToTokens;
use serde_json::{json, Value};
use syn::spanned::Spanned;

fn run_trait(name: &str, di: &syn::DeriveInput) -> Option<TokenStream> {
    use darling_core::derive as d;
    Some(match name {
        "FromMeta" => d::from_meta(di),
        "FromDeriveInput" => d::from_derive_input(di),
        "FromField" => d::from_field(di),
        "FromVariant" => d::from_variant(di),
        "FromTypeParam" => d::from_type_param(di),
        "FromAttributes" => d::from_attributes(di),
        _ => return None,
    })
}

/// `#[darling ...]` attributes of an element, in the model's `nested` language (path = darling).
fn dattrs(attrs: &[syn::Attribute]) -> Vec<Value> {
    attrs
        .iter()
        .filter(|a| a.meta.path().is_ident("darling"))
        .map(|a| crate::echo::meta(&a.meta))
        .collect()
}

fn field(f: &syn::Field) -> Value {
    json!({"ident": f.ident.as_ref().map(|i| i.to_string()), "span": span_json(f.span()),
           "ident_span": f.ident.as_ref().map(|i| span_json(i.span())),
           "attrs": dattrs(&f.attrs), "ty": crate::usage::ty(&f.ty), "ty_toks": f.ty.to_token_stream().to_string()})
}

fn fields(fs: &syn::Fields) -> Value {
    let (style, list): (&str, Vec<Value>) = match fs {
        syn::Fields::Unit => ("unit", vec![]),
        syn::Fields::Named(n) => ("named", n.named.iter().map(field).collect()),
        syn::Fields::Unnamed(u) => ("tuple", u.unnamed.iter().map(field).collect()),
    };
    json!({"style": style, "fields": list, "span": span_json(fs.span())})
}

pub fn echo_decl(di: &syn::DeriveInput) -> Value {
    let body = match &di.data {
        syn::Data::Struct(s) => json!({"t": "struct", "fields": fields(&s.fields)}),
        syn::Data::Enum(e) => json!({"t": "enum", "variants": e.variants.iter().map(|v| json!({
            "ident": v.ident.to_string(), "span": span_json(v.span()), "attrs": dattrs(&v.attrs), "fields": fields(&v.fields)
        })).collect::<Vec<_>>()}),
        syn::Data::Union(_) => json!({"t": "union"}),
    };
    let g = &di.generics;
    json!({
        "ident": di.ident.to_string(), "ident_span": span_json(di.ident.span()), "attrs": dattrs(&di.attrs), "body": body,
        "type_params": g.type_params().map(|t| t.ident.to_string()).collect::<Vec<_>>(),
        "lifetimes": g.lifetimes().map(|l| l.lifetime.to_string()).collect::<Vec<_>>(),
        "const_params": g.const_params().map(|c| c.ident.to_string()).collect::<Vec<_>>(),
        "generics_toks": g.to_token_stream().to_string(),
        "where_toks": g.where_clause.to_token_stream().to_string(),
    })
}

/// Split the returned tokens into `compile_error!` diagnostics and items.
fn analyse(ts: TokenStream) -> Value {
    // diagnostics: `:: core :: compile_error ! { "msg" }` sequences at top level
    let toks: Vec<TokenTree> = ts.clone().into_iter().collect();
    let mut diags = vec![];
    let mut rest: Vec<TokenTree> = vec![];
    let mut i = 0;
    while i < toks.len() {
        // pattern: `::` core `::` compile_error `!` {..}   (7 tokens: : : core : : compile_error ! group)
        let is_ce = |k: usize| -> bool {
            matches!(toks.get(k), Some(TokenTree::Ident(id)) if id == "compile_error")
                && matches!(toks.get(k + 1), Some(TokenTree::Punct(p)) if p.as_char() == '!')
                && matches!(toks.get(k + 2), Some(TokenTree::Group(_)))
        };
        let mut k = i;
        // skip a leading path `:: core ::`
        while k < toks.len() && k < i + 5 && !is_ce(k) {
            match &toks[k] {
                TokenTree::Punct(p) if p.as_char() == ':' => k += 1,
                TokenTree::Ident(id) if id == "core" || id == "std" => k += 1,
                _ => break,
            }
        }
        if is_ce(k) {
            if let TokenTree::Group(g) = &toks[k + 2] {
                let inner: Vec<TokenTree> = g.stream().into_iter().collect();
                let msg = inner
                    .first()
                    .and_then(|t| syn::parse2::<syn::LitStr>(t.clone().into()).ok())
                    .map(|l| l.value())
                    .unwrap_or_default();
                diags.push(json!({"span": span_opt_json(toks[k].span()), "msg": msg}));
            }
            i = k + 3;
            continue;
        }
        rest.push(toks[i].clone());
        i += 1;
    }
    let rest_ts: TokenStream = rest.into_iter().collect();
    let mut impls = vec![];
    let mut other_items = 0;
    let mut unparsed = Value::Null;
    if !rest_ts.is_empty() {
        match syn::parse2::<syn::File>(rest_ts.clone()) {
            Ok(f) => {
                for it in f.items {
                    match it {
                        syn::Item::Impl(im) => {
                            let bounds: Vec<Value> = im.generics.type_params().map(|tp| json!([tp.ident.to_string(),
                                tp.bounds.iter().map(|b| b.to_token_stream().to_string()).collect::<Vec<_>>()])).collect();
                            impls.push(json!({
                                "trait": im.trait_.as_ref().map(|t| t.1.to_token_stream().to_string()),
                                "self_ty": im.self_ty.to_token_stream().to_string(),
                                "generics": im.generics.params.to_token_stream().to_string(),
                                "where": im.generics.where_clause.to_token_stream().to_string(),
                                "param_bounds": bounds,
                                "idents": idents_of(im.to_token_stream()),
                                "binders": binders_of(im.to_token_stream()),
                                "bare": bare_idents(im.to_token_stream()),
                                "paths": crate_paths(im.to_token_stream()),
                            }));
                        }
                        _ => other_items += 1,
                    }
                }
            }
            Err(e) => unparsed = Value::String(e.to_string()),
        }
    }
    json!({"diags": diags, "impls": impls, "other_items": other_items, "unparsed": unparsed})
}

/// All identifiers starting with `__` (the generated locals) in a token stream, deduplicated.
fn idents_of(ts: TokenStream) -> Vec<String> {
    fn walk(ts: TokenStream, out: &mut Vec<String>) {
        for t in ts {
            match t {
                TokenTree::Ident(i) => {
                    let s = i.to_string();
                    if s.starts_with("__") && !out.contains(&s) {
                        out.push(s);
                    }
                }
                TokenTree::Group(g) => walk(g.stream(), out),
                _ => {}
            }
        }
    }
    let mut out = vec![];
    walk(ts, &mut out);
    out.sort();
    out
}

/// Identifiers bound by `let [mut]`, `ref [mut]`, `for .. in` and closure parameters `|x|` in the emitted code.
fn binders_of(ts: TokenStream) -> Vec<String> {
    fn walk(ts: TokenStream, out: &mut Vec<String>) {
        let toks: Vec<TokenTree> = ts.into_iter().collect();
        let is_kw = |t: Option<&TokenTree>, k: &str| matches!(t, Some(TokenTree::Ident(i)) if i == k);
        let mut i = 0;
        while i < toks.len() {
            if let TokenTree::Group(g) = &toks[i] {
                walk(g.stream(), out);
            }
            if is_kw(toks.get(i), "let") || is_kw(toks.get(i), "ref") || is_kw(toks.get(i), "for") {
                let mut k = i + 1;
                if is_kw(toks.get(k), "mut") {
                    k += 1;
                }
                // a pattern such as `Some(x)` or a path is not a binder; `impl Trait for Type` is not a loop
                let followed_by_call = matches!(toks.get(k + 1), Some(TokenTree::Group(g)) if g.delimiter() == proc_macro2::Delimiter::Parenthesis)
                    || matches!(toks.get(k + 1), Some(TokenTree::Punct(p)) if p.as_char() == ':' && p.spacing() == proc_macro2::Spacing::Joint);
                let loop_ok = !is_kw(toks.get(i), "for") || is_kw(toks.get(k + 1), "in");
                if let Some(TokenTree::Ident(id)) = toks.get(k) {
                    let s = id.to_string();
                    if !followed_by_call && loop_ok && !out.contains(&s) {
                        out.push(s);
                    }
                }
            }
            // closure parameter: `|` ident `|`
            if let (TokenTree::Punct(a), Some(TokenTree::Ident(id)), Some(TokenTree::Punct(b))) = (&toks[i], toks.get(i + 1), toks.get(i + 2)) {
                if a.as_char() == '|' && b.as_char() == '|' {
                    let s = id.to_string();
                    if !out.contains(&s) {
                        out.push(s);
                    }
                }
            }
            i += 1;
        }
    }
    let mut out = vec![];
    walk(ts, &mut out);
    out.sort();
    out
}

/// Identifiers the emitted code uses unqualified in a path-start position: not preceded by `::` or `.`,
/// and followed by `::`, `(`, `<`, `!` or `{` (a type, function, variant or macro named without a path).
fn bare_idents(ts: TokenStream) -> Vec<String> {
    fn walk(ts: TokenStream, out: &mut Vec<String>) {
        let toks: Vec<TokenTree> = ts.into_iter().collect();
        for (i, t) in toks.iter().enumerate() {
            if let TokenTree::Group(g) = t {
                walk(g.stream(), out);
            }
            if let TokenTree::Ident(id) = t {
                let prev_sep = i > 0 && matches!(&toks[i - 1], TokenTree::Punct(p) if p.as_char() == ':' || p.as_char() == '.' || p.as_char() == '\'');
                if prev_sep {
                    continue;
                }
                let s = id.to_string();
                let first_upper = s.chars().next().map(|c| c.is_uppercase()).unwrap_or(false);
                let next_bang = matches!(toks.get(i + 1), Some(TokenTree::Punct(p)) if p.as_char() == '!');
                let keyword = ["if", "else", "match", "return", "while", "for", "in", "let", "mut", "ref"].contains(&s.as_str());
                let next_bang = next_bang
                    && !keyword
                    && !matches!(toks.get(i + 2), Some(TokenTree::Punct(p)) if p.as_char() == '=');
                if (first_upper || next_bang) && !out.contains(&s) {
                    out.push(if next_bang { format!("{}!", s) } else { s });
                }
            }
        }
    }
    let mut out = vec![];
    walk(ts, &mut out);
    out.sort();
    out.dedup();
    out
}

/// First segments of every global path `::seg::...` in the emitted code (dependencies named).
fn crate_paths(ts: TokenStream) -> Vec<String> {
    fn walk(ts: TokenStream, out: &mut Vec<String>) {
        let toks: Vec<TokenTree> = ts.into_iter().collect();
        for (i, t) in toks.iter().enumerate() {
            if let TokenTree::Group(g) = t {
                walk(g.stream(), out);
            }
            // `::` ident not preceded by an ident or `>` : a global path start
            if let (TokenTree::Punct(a), Some(TokenTree::Punct(b)), Some(TokenTree::Ident(id))) = (t, toks.get(i + 1), toks.get(i + 2)) {
                if a.as_char() == ':' && b.as_char() == ':' && a.spacing() == proc_macro2::Spacing::Joint {
                    let prev_ok = i == 0 || !matches!(&toks[i - 1], TokenTree::Ident(_))
                        && !matches!(&toks[i - 1], TokenTree::Punct(p) if p.as_char() == '>' || p.as_char() == ':');
                    if prev_ok {
                        let s = id.to_string();
                        if !out.contains(&s) {
                            out.push(s);
                        }
                    }
                }
            }
        }
    }
    let mut out = vec![];
    walk(ts, &mut out);
    out.sort();
    out
}

pub fn run_derive(case: &Value) -> Value {
    let src = case["src"].as_str().unwrap_or("");
    let di: syn::DeriveInput = match syn::parse_str(src) {
        Ok(d) => d,
        Err(e) => return json!({"unparsed": e.to_string()}),
    };
    let echo = echo_decl(&di);
    let tr = case["trait"].as_str().unwrap_or("");
    match catch(|| run_trait(tr, &di)) {
        Err(m) => json!({"or": crate::conv::syn_oracles(&echo), "echo": echo, "panic": m}),
        Ok(None) => json!({"error": "unknown trait"}),
        Ok(Some(ts)) => {
            let mut out = analyse(ts.clone());
            out["or"] = crate::conv::syn_oracles(&echo);
            out["echo"] = echo;
            if case["tokens"].as_bool().unwrap_or(false) {
                out["tokens"] = Value::String(ts.to_string());
            }
            out
        }
    }
}

#[allow(dead_code)]
fn _unused(_: &NestedMeta) {}
