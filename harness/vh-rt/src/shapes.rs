//! C18: the stand-alone ShapeSet API and receivers declaring `supports(...)`.
use crate::errs::observe;
use crate::shape_recv;
use crate::util::catch;
use darling::util::{Shape, ShapeSet};
use serde_json::{json, Value};

fn shape(s: &str) -> Shape {
    match s {
        "named" => Shape::Named,
        "tuple" => Shape::Tuple,
        "unit" => Shape::Unit,
        "newtype" => Shape::Newtype,
        other => panic!("harness: unknown shape {}", other),
    }
}

fn res(r: Result<darling::Result<()>, String>) -> Value {
    match r {
        Err(m) => json!({"panic": m}),
        Ok(Ok(())) => json!({"ok": true}),
        Ok(Err(e)) => json!({"err": observe(&e)}),
    }
}

pub fn run_shape(case: &Value) -> Value {
    match case["kind"].as_str().unwrap_or("") {
        "api" => {
            let set = ShapeSet::new(case["set"].as_array().unwrap().iter().map(|s| shape(s.as_str().unwrap())));
            let sh = shape(case["shape"].as_str().unwrap());
            json!({"contains": set.contains(&sh), "check": res(catch(|| set.check(&sh))), "display": set.to_string()})
        }
        "family" => json!({"di": shape_recv::DI_FAMILY, "v": shape_recv::V_FAMILY}),
        "derived" => {
            let di: syn::DeriveInput = match syn::parse_str(case["src"].as_str().unwrap()) {
                Ok(d) => d,
                Err(e) => return json!({"unparsed": e.to_string()}),
            };
            let k = case["recv"].as_u64().unwrap() as usize;
            res(catch(|| shape_recv::derive_input(k, &di).expect("receiver index")))
        }
        "variant" => {
            let di: syn::DeriveInput = match syn::parse_str(&format!("enum E {{ {} }}", case["src"].as_str().unwrap())) {
                Ok(d) => d,
                Err(e) => return json!({"unparsed": e.to_string()}),
            };
            let v = match &di.data {
                syn::Data::Enum(e) => e.variants[0].clone(),
                _ => unreachable!(),
            };
            let k = case["recv"].as_u64().unwrap() as usize;
            res(catch(|| shape_recv::variant(k, &v).expect("receiver index")))
        }
        other => json!({"error": format!("unknown shape case {}", other)}),
    }
}
