//! `Dump`: converted values as the model's `value` tree (Base/Syntax.v).
use quote::ToTokens;
use serde_json::{json, Value};
use std::cell::RefCell;
use std::collections::{BTreeMap, HashMap};
use std::rc::Rc;
use std::sync::atomic::{AtomicBool, Ordering};
use std::sync::Arc;

pub trait Dump {
    fn dump(&self) -> Value;
}

impl Dump for () {
    fn dump(&self) -> Value {
        json!({"t": "unit"})
    }
}
impl Dump for bool {
    fn dump(&self) -> Value {
        json!({"t": "bool", "v": self})
    }
}
impl Dump for AtomicBool {
    fn dump(&self) -> Value {
        json!({"t": "bool", "v": self.load(Ordering::SeqCst)})
    }
}
impl Dump for char {
    fn dump(&self) -> Value {
        json!({"t": "char", "v": *self as u32})
    }
}
impl Dump for String {
    fn dump(&self) -> Value {
        json!({"t": "str", "v": self})
    }
}
impl Dump for std::path::PathBuf {
    fn dump(&self) -> Value {
        json!({"t": "str", "v": self.to_str().unwrap()})
    }
}
macro_rules! dump_int {
    ($($t:ty),*) => {$(
        impl Dump for $t { fn dump(&self) -> Value { json!({"t": "int", "v": self.to_string()}) } }
    )*};
}
dump_int!(u8, u16, u32, u64, u128, usize, i8, i16, i32, i64, i128, isize);
dump_int!(
    std::num::NonZeroU8, std::num::NonZeroU16, std::num::NonZeroU32, std::num::NonZeroU64,
    std::num::NonZeroU128, std::num::NonZeroUsize, std::num::NonZeroI8, std::num::NonZeroI16,
    std::num::NonZeroI32, std::num::NonZeroI64, std::num::NonZeroI128, std::num::NonZeroIsize
);
impl Dump for f32 {
    fn dump(&self) -> Value {
        json!({"t": "float", "v": self.to_bits() as u64})
    }
}
impl Dump for f64 {
    fn dump(&self) -> Value {
        json!({"t": "float", "v": self.to_bits()})
    }
}

pub fn toks<T: ToTokens>(t: &T) -> Value {
    json!({"t": "toks", "v": crate::util::toks_explicit(t.to_token_stream())})
}

macro_rules! dump_toks {
    ($($t:ty),* $(,)?) => {$(
        impl Dump for $t { fn dump(&self) -> Value { toks(self) } }
    )*};
}
dump_toks!(
    syn::Expr, syn::Path, syn::Ident, syn::ExprArray, syn::ExprPath, syn::ExprRange, syn::Type,
    syn::TypeArray, syn::TypeBareFn, syn::TypeGroup, syn::TypeImplTrait, syn::TypeInfer,
    syn::TypeMacro, syn::TypeNever, syn::TypeParam, syn::TypeParen, syn::TypePath, syn::TypePtr,
    syn::TypeReference, syn::TypeSlice, syn::TypeTraitObject, syn::TypeTuple, syn::Visibility,
    syn::WhereClause, syn::Lit, syn::LitInt, syn::LitFloat, syn::LitStr, syn::LitByte,
    syn::LitByteStr, syn::LitChar, syn::LitBool, proc_macro2::Literal, syn::Meta,
    syn::WherePredicate, darling::util::Callable, darling::util::IdentString,
);

impl<T: Dump> Dump for Option<T> {
    fn dump(&self) -> Value {
        match self {
            None => json!({"t": "none"}),
            Some(v) => json!({"t": "some", "v": v.dump()}),
        }
    }
}
impl<T: Dump> Dump for Box<T> {
    fn dump(&self) -> Value {
        json!({"t": "ptr", "v": (**self).dump()})
    }
}
impl<T: Dump> Dump for Rc<T> {
    fn dump(&self) -> Value {
        json!({"t": "ptr", "v": (**self).dump()})
    }
}
impl<T: Dump> Dump for Arc<T> {
    fn dump(&self) -> Value {
        json!({"t": "ptr", "v": (**self).dump()})
    }
}
impl<T: Dump> Dump for RefCell<T> {
    fn dump(&self) -> Value {
        json!({"t": "ptr", "v": self.borrow().dump()})
    }
}
impl<T: Dump> Dump for darling::Result<T> {
    fn dump(&self) -> Value {
        match self {
            Ok(v) => json!({"t": "res_ok", "v": v.dump()}),
            Err(e) => json!({"t": "res_err", "e": crate::errs::observe(e)}),
        }
    }
}
impl<T: Dump> Dump for Result<T, syn::Meta> {
    fn dump(&self) -> Value {
        match self {
            Ok(v) => json!({"t": "meta_ok", "v": v.dump()}),
            Err(m) => json!({"t": "meta_err", "toks": crate::util::toks_explicit(m.to_token_stream())}),
        }
    }
}
impl<T: Dump> Dump for darling::util::Override<T> {
    fn dump(&self) -> Value {
        match self {
            darling::util::Override::Inherit => json!({"t": "inherit"}),
            darling::util::Override::Explicit(v) => json!({"t": "explicit", "v": v.dump()}),
        }
    }
}
impl<T: Dump> Dump for darling::util::SpannedValue<T> {
    fn dump(&self) -> Value {
        json!({"t": "spanned", "v": (**self).dump(), "span": crate::util::span_json(self.span())})
    }
}
impl<T: Dump, O: ToTokens> Dump for darling::util::WithOriginal<T, O> {
    fn dump(&self) -> Value {
        json!({"t": "with_orig", "v": self.parsed.dump(), "toks": crate::util::toks_explicit(self.original.to_token_stream())})
    }
}
impl Dump for darling::util::Flag {
    fn dump(&self) -> Value {
        if self.is_present() {
            json!({"t": "flag", "span": crate::util::span_json(self.span())})
        } else {
            json!({"t": "flag", "span": null})
        }
    }
}
impl<T: Dump> Dump for Vec<T> {
    fn dump(&self) -> Value {
        json!({"t": "list", "vs": self.iter().map(|v| v.dump()).collect::<Vec<_>>()})
    }
}
impl Dump for darling::util::PathList {
    fn dump(&self) -> Value {
        json!({"t": "list", "vs": self.iter().map(toks).collect::<Vec<_>>()})
    }
}

/// Map keys are compared as their display strings; entries are reported sorted by key.
pub trait KeyStr {
    fn key_str(&self) -> String;
}
impl KeyStr for String {
    fn key_str(&self) -> String {
        self.clone()
    }
}
impl KeyStr for syn::Ident {
    fn key_str(&self) -> String {
        self.to_string()
    }
}
impl KeyStr for syn::Path {
    fn key_str(&self) -> String {
        self.to_token_stream().to_string()
    }
}
fn dump_map<'a, K: KeyStr + 'a, V: Dump + 'a>(it: impl Iterator<Item = (&'a K, &'a V)>) -> Value {
    let mut kvs: Vec<(String, Value)> = it.map(|(k, v)| (k.key_str(), v.dump())).collect();
    kvs.sort_by(|a, b| a.0.cmp(&b.0));
    json!({"t": "map", "kvs": kvs.into_iter().map(|(k, v)| json!([k, v])).collect::<Vec<_>>()})
}
impl<K: KeyStr, V: Dump, S> Dump for HashMap<K, V, S> {
    fn dump(&self) -> Value {
        dump_map(self.iter())
    }
}
impl<K: KeyStr, V: Dump> Dump for BTreeMap<K, V> {
    fn dump(&self) -> Value {
        dump_map(self.iter())
    }
}
impl<T: ToTokens, P: ToTokens> Dump for syn::punctuated::Punctuated<T, P> {
    fn dump(&self) -> Value {
        toks(self)
    }
}
