//! C11-C15: `T::from_meta` / `from_nested_meta` / `from_none` of library targets on parsed items.
use crate::dump::Dump;
use crate::errs::observe;
use crate::util::catch;
use darling::ast::NestedMeta;
use darling::FromMeta;
use serde_json::{json, Value};

fn outcome<T: Dump>(r: Result<darling::Result<T>, String>) -> Value {
    match r {
        Err(msg) => json!({"panic": msg}),
        Ok(Ok(v)) => json!({"ok": v.dump()}),
        Ok(Err(e)) => json!({"err": observe(&e)}),
    }
}

pub enum Input {
    Meta(syn::Meta),
    Nested(NestedMeta),
    None,
}

fn run_t<T: FromMeta + Dump>(input: &Input) -> Value {
    match input {
        Input::Meta(m) => outcome(catch(|| T::from_meta(m))),
        Input::Nested(n) => outcome(catch(|| T::from_nested_meta(n))),
        Input::None => match catch(|| T::from_none()) {
            Err(msg) => json!({"panic": msg}),
            Ok(None) => json!({"none": null}),
            Ok(Some(v)) => json!({"none": v.dump()}),
        },
    }
}

macro_rules! targets {
    ($name:expr, $input:expr; $($t:ty),* $(,)?) => {{
        let n: String = $name.chars().filter(|c| !c.is_whitespace()).collect();
        $( if n == stringify!($t).chars().filter(|c| !c.is_whitespace()).collect::<String>() {
            return Some(run_t::<$t>($input));
        } )*
        None
    }};
}

#[allow(unused_imports)]
fn dispatch(name: &str, input: &Input) -> Option<Value> {
    use std::num::*;
    use std::path::PathBuf;
    use std::sync::atomic::AtomicBool;
    targets!(name, input;
        (), bool, AtomicBool, char, String, PathBuf,
        u8, u16, u32, u64, u128, usize, i8, i16, i32, i64, i128, isize,
        NonZeroU8, NonZeroU16, NonZeroU32, NonZeroU64, NonZeroU128, NonZeroUsize,
        NonZeroI8, NonZeroI16, NonZeroI32, NonZeroI64, NonZeroI128, NonZeroIsize,
        f32, f64,
    )
}

/// Parse the case's source.  "meta": `src` is the inside of `#[...]`; "nested": `src` is one item
/// of a list, parsed in list position; "none": no input.
pub fn parse_input(case: &Value) -> Result<(Input, Value), String> {
    let src = case["src"].as_str().unwrap_or("");
    match case["entry"].as_str().unwrap_or("meta") {
        "meta" => {
            let attr: syn::DeriveInput =
                syn::parse_str(&format!("#[{}]\nstruct S;", src)).map_err(|e| e.to_string())?;
            let m = attr.attrs[0].meta.clone();
            let echo = crate::echo::meta(&m);
            Ok((Input::Meta(m), echo))
        }
        "nested" => {
            let attr: syn::DeriveInput =
                syn::parse_str(&format!("#[w({})]\nstruct S;", src)).map_err(|e| e.to_string())?;
            let list = attr.attrs[0].meta.require_list().map_err(|e| e.to_string())?;
            let mut items =
                NestedMeta::parse_meta_list(list.tokens.clone()).map_err(|e| e.to_string())?;
            if items.len() != 1 {
                return Err(format!("expected one nested item, got {}", items.len()));
            }
            let n = items.remove(0);
            let echo = crate::echo::nested(&n);
            Ok((Input::Nested(n), echo))
        }
        "none" => Ok((Input::None, Value::Null)),
        other => Err(format!("unknown entry {}", other)),
    }
}

pub fn float_oracle(echo: &Value) -> Value {
    let mut strs = vec![];
    crate::echo::float_strings(echo, &mut strs);
    strs.sort();
    strs.dedup();
    let rows: Vec<Value> = strs
        .iter()
        .map(|s| {
            json!([s, s.parse::<f32>().ok().map(|f| f.to_bits() as u64), s.parse::<f64>().ok().map(|f| f.to_bits())])
        })
        .collect();
    Value::Array(rows)
}

pub fn run_conv(case: &Value) -> Value {
    let (input, echo) = match parse_input(case) {
        Ok(x) => x,
        Err(e) => return json!({"unparsed": e}),
    };
    let target = case["target"].as_str().unwrap_or("");
    match dispatch(target, &input) {
        None => json!({"error": format!("unknown target {}", target)}),
        Some(mut out) => {
            out["pf"] = float_oracle(&echo);
            out["echo"] = echo;
            out
        }
    }
}

/// Exhaustive sweep for one integer target: the maximal intervals of [lo, hi] on which the
/// conversion of the decimal spelling returns exactly the denoted value (quoted and unquoted),
/// and the number of values for which it returned some *other* value.
pub fn run_int_sweep(case: &Value) -> Value {
    let target = case["target"].as_str().unwrap_or("");
    let lo = case["lo"].as_i64().unwrap();
    let hi = case["hi"].as_i64().unwrap();
    let mut wrong = 0u64;
    let mut sweep = |quoted: bool| -> Vec<[i64; 2]> {
        let mut out: Vec<[i64; 2]> = vec![];
        let mut cur: Option<[i64; 2]> = None;
        for v in lo..=hi {
            let src = if quoted { format!("x = \"{}\"", v) } else { format!("x = {}", v) };
            let m: syn::Meta = syn::parse_str(&src).expect("sweep source parses");
            let r = dispatch(target, &Input::Meta(m)).expect("known target");
            let exact = match r.get("ok") {
                Some(val) => {
                    if val["v"].as_str() == Some(&v.to_string()) {
                        true
                    } else {
                        wrong += 1;
                        false
                    }
                }
                None => {
                    if r.get("panic").is_some() {
                        wrong += 1;
                    }
                    false
                }
            };
            match (&mut cur, exact) {
                (Some(c), true) => c[1] = v,
                (None, true) => cur = Some([v, v]),
                (Some(c), false) => {
                    out.push(*c);
                    cur = None;
                }
                (None, false) => {}
            }
        }
        if let Some(c) = cur {
            out.push(c);
        }
        out
    };
    let q = sweep(true);
    let u = sweep(false);
    json!({"quoted": q, "unquoted": u, "wrong": wrong})
}
