//! C15 (A): `NestedMeta::parse_meta_list` against a table of syn's own look-ahead / parser extents.
use crate::util::catch;
use darling::ast::NestedMeta;
use proc_macro2::{TokenStream, TokenTree};
use quote::ToTokens;
use serde_json::{json, Value};
use syn::ext::IdentExt;
use syn::parse::{ParseStream, Parser};
use syn::spanned::Spanned;
use syn::{Lit, LitBool, Meta, Token};

fn count(ts: &TokenStream) -> usize {
    ts.clone().into_iter().count()
}

fn row(toks: &[TokenTree], p: usize) -> Value {
    let ts: TokenStream = toks[p..].iter().cloned().collect();
    let total = toks.len() - p;
    let is_comma = matches!(&toks[p], TokenTree::Punct(c) if c.as_char() == ',');
    let peeks = (|input: ParseStream| {
        let r = (
            input.peek(Lit),
            input.peek(LitBool),
            input.peek2(Token![=]),
            input.peek(syn::Ident::peek_any),
            input.peek(Token![::]),
            input.peek3(syn::Ident::peek_any),
        );
        input.parse::<TokenStream>()?;
        Ok(r)
    })
    .parse2(ts.clone())
    .expect("peeks never fail");
    let lit_len = (|input: ParseStream| {
        input.parse::<Lit>()?;
        let rest: TokenStream = input.parse()?;
        Ok(total - count(&rest))
    })
    .parse2(ts.clone())
    .ok();
    let meta_len = (|input: ParseStream| {
        input.parse::<Meta>()?;
        let rest: TokenStream = input.parse()?;
        Ok(total - count(&rest))
    })
    .parse2(ts)
    .ok();
    json!({"comma": is_comma, "lit": peeks.0, "litbool": peeks.1, "eq2": peeks.2, "ident": peeks.3,
           "colon2": peeks.4, "ident3": peeks.5, "lit_len": lit_len, "meta_len": meta_len})
}

fn views(items: &[NestedMeta], toks: &[TokenTree]) -> Vec<Value> {
    items
        .iter()
        .map(|it| {
            let start = it.span().start();
            let idx = toks.iter().position(|t| t.span().start() == start);
            json!([matches!(it, NestedMeta::Lit(_)), idx, count(&it.to_token_stream())])
        })
        .collect()
}

pub fn run_parse_list(case: &Value) -> Value {
    let src = case["src"].as_str().unwrap_or("");
    let ts: TokenStream = match src.parse() {
        Ok(t) => t,
        Err(_) => return json!({"unparsed": "lex error"}),
    };
    let toks: Vec<TokenTree> = ts.clone().into_iter().collect();
    let tbl: Vec<Value> = (0..toks.len()).map(|p| row(&toks, p)).collect();
    let r = catch(|| NestedMeta::parse_meta_list(ts.clone()));
    match r {
        Err(msg) => json!({"tbl": tbl, "panic": msg}),
        Ok(Err(_)) => json!({"tbl": tbl, "obs": null, "reparse_same": true}),
        Ok(Ok(items)) => {
            // print (comma separated) and parse again: identity on classes and tokens
            let printed = quote::quote!(#(#items),*);
            let same = match NestedMeta::parse_meta_list(printed) {
                Ok(again) => {
                    again.len() == items.len()
                        && again.iter().zip(items.iter()).all(|(a, b)| {
                            matches!(a, NestedMeta::Lit(_)) == matches!(b, NestedMeta::Lit(_))
                                && a.to_token_stream().to_string() == b.to_token_stream().to_string()
                        })
                }
                Err(_) => false,
            };
            json!({"tbl": tbl, "obs": views(&items, &toks), "reparse_same": same,
                   "items": items.iter().map(|i| i.to_token_stream().to_string()).collect::<Vec<_>>()})
        }
    }
}
