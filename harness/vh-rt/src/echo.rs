//! Serialises what syn parsed (shape, source ranges, token strings) in the model's input language
//! (Base/Syntax.v).  This is the trusted "syn tree -> model term" glue.
use crate::util::span_json;
use darling::ast::NestedMeta;
use quote::ToTokens;
use serde_json::{json, Value};
use syn::spanned::Spanned;
use syn::{Expr, Lit, Meta};

pub fn info<T: ToTokens + Spanned>(n: &T) -> Value {
    json!({"span": span_json(n.span()), "toks": crate::util::toks_explicit(n.to_token_stream())})
}

pub fn path(p: &syn::Path) -> Value {
    let segs: Vec<Value> = p
        .segments
        .iter()
        .map(|s| json!([s.ident.to_string(), s.arguments.to_token_stream().to_string()]))
        .collect();
    json!({"info": info(p), "leading": p.leading_colon.is_some(), "segs": segs})
}

pub fn lit(l: &Lit) -> Value {
    match l {
        Lit::Bool(b) => json!({"t": "bool", "v": b.value}),
        Lit::Str(s) => json!({"t": "str", "v": s.value()}),
        Lit::Char(c) => json!({"t": "char", "v": c.value() as u32}),
        Lit::Int(i) => json!({"t": "int", "digits": i.base10_digits(), "suffix": i.suffix()}),
        Lit::Float(f) => json!({"t": "float", "digits": f.base10_digits(), "suffix": f.suffix()}),
        Lit::Byte(_) => json!({"t": "byte"}),
        Lit::ByteStr(_) => json!({"t": "bytestr"}),
        Lit::CStr(_) => json!({"t": "cstr"}),
        Lit::Verbatim(_) => json!({"t": "verbatim"}),
        _ => json!({"t": "unknown"}),
    }
}

/// The documented names of expression kinds (independent copy of the table the errors use).
pub fn expr_kind(e: &Expr) -> &'static str {
    match e {
        Expr::Array(_) => "array",
        Expr::Assign(_) => "assign",
        Expr::Async(_) => "async",
        Expr::Await(_) => "await",
        Expr::Binary(_) => "binary",
        Expr::Block(_) => "block",
        Expr::Break(_) => "break",
        Expr::Call(_) => "call",
        Expr::Cast(_) => "cast",
        Expr::Closure(_) => "closure",
        Expr::Const(_) => "const",
        Expr::Continue(_) => "continue",
        Expr::Field(_) => "field",
        Expr::ForLoop(_) => "for_loop",
        Expr::Group(_) => "group",
        Expr::If(_) => "if",
        Expr::Index(_) => "index",
        Expr::Infer(_) => "infer",
        Expr::Let(_) => "let",
        Expr::Lit(_) => "lit",
        Expr::Loop(_) => "loop",
        Expr::Macro(_) => "macro",
        Expr::Match(_) => "match",
        Expr::MethodCall(_) => "method_call",
        Expr::Paren(_) => "paren",
        Expr::Path(_) => "path",
        Expr::Range(_) => "range",
        Expr::Reference(_) => "reference",
        Expr::Repeat(_) => "repeat",
        Expr::Return(_) => "return",
        Expr::Struct(_) => "struct",
        Expr::Try(_) => "try",
        Expr::TryBlock(_) => "try_block",
        Expr::Tuple(_) => "tuple",
        Expr::Unary(_) => "unary",
        Expr::Unsafe(_) => "unsafe",
        Expr::Verbatim(_) => "verbatim",
        Expr::While(_) => "while",
        Expr::Yield(_) => "yield",
        _ => "unknown",
    }
}

fn strip_groups(mut e: &Expr) -> &Expr {
    while let Expr::Group(g) = e {
        e = &g.expr;
    }
    e
}

pub fn expr(e: &Expr) -> Value {
    match e {
        Expr::Lit(l) => json!({"t": "lit", "info": info(e), "lit": lit(&l.lit)}),
        Expr::Group(g) => json!({"t": "group", "info": info(e), "e": expr(&g.expr)}),
        // `- <int or float literal>`: the form syn gives `name = -1` when another item follows
        // (the operand may sit in invisible groups: `-$n` with `$n` a macro_rules! fragment)
        Expr::Unary(syn::ExprUnary { op: syn::UnOp::Neg(_), expr: inner, attrs, .. })
            if attrs.is_empty()
                && matches!(strip_groups(inner), Expr::Lit(syn::ExprLit { lit: Lit::Int(_) | Lit::Float(_), .. })) =>
        {
            match syn::parse2::<Lit>(e.to_token_stream()) {
                Ok(l) => json!({"t": "neg", "info": info(e), "lit": lit(&l)}),
                Err(_) => json!({"t": "other", "info": info(e), "kind": "unary"}),
            }
        }
        Expr::Path(p) if p.qself.is_none() && p.attrs.is_empty() => {
            json!({"t": "path", "info": info(e), "path": path(&p.path)})
        }
        Expr::Array(a) => {
            json!({"t": "array", "info": info(e), "es": a.elems.iter().map(expr).collect::<Vec<_>>()})
        }
        other => json!({"t": "other", "info": info(e), "kind": expr_kind(other)}),
    }
}

pub fn meta(m: &Meta) -> Value {
    match m {
        Meta::Path(p) => json!({"t": "path", "info": info(m), "path": path(p)}),
        Meta::NameValue(nv) => {
            json!({"t": "nv", "info": info(m), "path": path(&nv.path), "e": expr(&nv.value)})
        }
        Meta::List(l) => {
            let ti = info(&l.tokens);
            match NestedMeta::parse_meta_list(l.tokens.clone()) {
                Ok(items) => json!({
                    "t": "list", "info": info(m), "path": path(&l.path), "ti": ti,
                    "items": items.iter().map(nested).collect::<Vec<_>>()
                }),
                Err(e) => json!({
                    "t": "badlist", "info": info(m), "path": path(&l.path), "ti": ti,
                    "es": span_json(e.span()), "emsg": e.to_string()
                }),
            }
        }
    }
}

pub fn nested(n: &NestedMeta) -> Value {
    match n {
        NestedMeta::Lit(l) => json!({"t": "lit", "info": info(n), "lit": lit(l)}),
        NestedMeta::Meta(m) => meta(m),
    }
}

/// All string contents and float digit strings occurring in an echoed tree (for the float oracle).
pub fn float_strings(v: &Value, out: &mut Vec<String>) {
    match v {
        Value::Object(o) => {
            if let Some(t) = o.get("t").and_then(|t| t.as_str()) {
                if t == "str" {
                    if let Some(s) = o.get("v").and_then(|s| s.as_str()) {
                        out.push(s.to_string());
                    }
                }
                if t == "float" || t == "int" {
                    if let Some(s) = o.get("digits").and_then(|s| s.as_str()) {
                        out.push(s.to_string());
                    }
                }
            }
            for (_, x) in o {
                float_strings(x, out);
            }
        }
        Value::Array(a) => {
            for x in a {
                float_strings(x, out);
            }
        }
        _ => {}
    }
}
