//! C04 / C05 (and the algebraic parts of C03, C17): error values and accumulators built
//! through the public API.
use crate::util::{catch, span_opt_json};
use darling::Error;
use proc_macro2::{Span, TokenStream, TokenTree};
use serde_json::{json, Value};

const MARK: &str = "\u{1}M";

/// Spans of the top-level tokens of `src`, in order.
fn token_spans(src: &str) -> Vec<Span> {
    let ts: TokenStream = src.parse().expect("span source lexes");
    ts.into_iter().map(|t| t.span()).collect()
}

struct SpanOf(Span);
impl quote::ToTokens for SpanOf {
    fn to_tokens(&self, tokens: &mut TokenStream) {
        tokens.extend(std::iter::once(TokenTree::Ident(proc_macro2::Ident::new("x", self.0))));
    }
}

fn strs(v: &Value) -> Vec<String> {
    v.as_array()
        .map(|a| a.iter().map(|s| s.as_str().unwrap().to_string()).collect())
        .unwrap_or_default()
}

fn leaf(k: &Value) -> Error {
    let a = || k["a"].as_str().unwrap();
    match k["t"].as_str().unwrap() {
        "custom" => Error::custom(a()),
        "duplicate_field" => Error::duplicate_field(a()),
        "missing_field" => Error::missing_field(a()),
        "unsupported_shape" => match k["b"].as_str() {
            None => Error::unsupported_shape(a()),
            Some(e) => Error::unsupported_shape_with_expected(a(), &e),
        },
        "unknown_field" => Error::unknown_field(a()),
        "unsupported_format" => Error::unsupported_format(a()),
        "unexpected_type" => Error::unexpected_type(a()),
        "unknown_value" => Error::unknown_value(a()),
        "too_few_items" => Error::too_few_items(k["n"].as_u64().unwrap() as usize),
        "too_many_items" => Error::too_many_items(k["n"].as_u64().unwrap() as usize),
        other => panic!("harness: unknown leaf kind {}", other),
    }
}

/// Ok(Some(e)) value, Ok(None) = into_iter().nth(n) was None.
fn eval(b: &Value, spans: &[Span]) -> Option<Error> {
    match b["t"].as_str().unwrap() {
        "leaf" => Some(leaf(&b["k"])),
        "unknown_alts" => Some(Error::unknown_field_with_alts(
            b["name"].as_str().unwrap(),
            &strs(&b["alts"]),
        )),
        "from_syn" => {
            let sp = spans[b["s"].as_u64().unwrap() as usize];
            Some(Error::from(syn::Error::new(sp, b["msg"].as_str().unwrap())))
        }
        "at" => eval(&b["b"], spans).map(|e| e.at(b["l"].as_str().unwrap())),
        "with_span" => {
            let sp = spans[b["s"].as_u64().unwrap() as usize];
            eval(&b["b"], spans).map(|e| e.with_span(&SpanOf(sp)))
        }
        "multiple" => {
            let mut v = vec![];
            for x in b["bs"].as_array().unwrap() {
                match eval(x, spans) {
                    Some(e) => v.push(e),
                    None => return None,
                }
            }
            Some(Error::multiple(v))
        }
        "flatten" => eval(&b["b"], spans).map(|e| e.flatten()),
        "iter_nth" => {
            let n = b["n"].as_u64().unwrap() as usize;
            eval(&b["b"], spans).and_then(|e| e.into_iter().nth(n))
        }
        "clone" => eval(&b["b"], spans).map(|e| {
            let c = e.clone();
            drop(e);
            c
        }),
        "add_alts" => {
            eval(&b["b"], spans).map(|e| e.add_sibling_alts_for_unknown_field(&strs(&b["alts"])))
        }
        other => panic!("harness: unknown bexpr {}", other),
    }
}

/// The observation of one error value through the public API only.
pub fn observe(e: &Error) -> Value {
    let disp = e.to_string();
    let marked = e.clone().at(MARK).to_string();
    let needle = format!(" at {}", MARK);
    let idx = marked.rfind(&needle).expect("marker present");
    let body = marked[..idx].to_string();
    let rest = &marked[idx + needle.len()..];
    let locs = if rest.is_empty() {
        Value::Null
    } else {
        Value::String(rest.strip_prefix('/').expect("slash after marker").to_string())
    };
    let span = match e.explicit_span() {
        None => Value::Null,
        Some(s) => crate::util::span_json(s),
    };
    let kids: Vec<Value> = if e.len() == 1 {
        vec![]
    } else {
        e.clone().into_iter().map(|k| observe(&k)).collect()
    };
    json!({"len": e.len(), "disp": disp, "body": body, "locs": locs, "span": span, "kids": kids})
}

fn diags_of_syn(e: syn::Error) -> Vec<Value> {
    e.into_iter()
        .map(|d| json!({"span": span_opt_json(d.span()), "msg": d.to_string()}))
        .collect()
}

/// Parse the token stream of `write_errors()` back into (span, message) pairs.
fn diags_of_tokens(ts: TokenStream) -> Result<Vec<Value>, String> {
    // each diagnostic is `:: core :: compile_error ! { "msg" }`
    let toks: Vec<TokenTree> = ts.into_iter().collect();
    let mut out = vec![];
    let mut i = 0;
    while i < toks.len() {
        // find the next `!` followed by a group
        if let TokenTree::Punct(p) = &toks[i] {
            if p.as_char() == '!' {
                if let Some(TokenTree::Group(g)) = toks.get(i + 1) {
                    let inner: Vec<TokenTree> = g.stream().into_iter().collect();
                    if inner.len() != 1 {
                        return Err(format!("compile_error body has {} tokens", inner.len()));
                    }
                    let lit: syn::LitStr =
                        syn::parse2(inner[0].clone().into()).map_err(|e| e.to_string())?;
                    // the diagnostic's position is the span the tokens were given
                    out.push(json!({"span": span_opt_json(p.span()), "msg": lit.value()}));
                    i += 2;
                    continue;
                }
            }
        }
        i += 1;
    }
    Ok(out)
}

pub fn sim_table(case: &Value) -> Vec<Value> {
    case["pairs"]
        .as_array()
        .map(|ps| {
            ps.iter()
                .map(|p| {
                    let s = strsim::jaro_winkler(p[0].as_str().unwrap(), p[1].as_str().unwrap());
                    json!(s.to_bits())
                })
                .collect()
        })
        .unwrap_or_default()
}

pub fn run_err_expr(case: &Value) -> Value {
    let mut out = run_err_expr_inner(case);
    out["sim"] = Value::Array(sim_table(case));
    out
}

fn run_err_expr_inner(case: &Value) -> Value {
    let spans = token_spans(case["src"].as_str().unwrap_or(""));
    let r = catch(|| eval(&case["expr"], &spans));
    let e = match r {
        Err(msg) => return json!({"panic": msg}),
        Ok(None) => return json!({"absent": true}),
        Ok(Some(e)) => e,
    };
    let r = catch(|| {
        let flat = e.clone().flatten();
        let flat2 = flat.clone().flatten();
        let diags = diags_of_syn(syn::Error::from(e.clone()));
        let diags_ts = diags_of_tokens(e.clone().write_errors());
        (flat, flat2, diags, diags_ts)
    });
    match r {
        Err(msg) => json!({"panic": msg}),
        Ok((flat, flat2, diags, diags_ts)) => match diags_ts {
            Err(m) => json!({"error": m}),
            Ok(ts) => json!({
                "val": observe(&e), "flat": observe(&flat), "flat2": observe(&flat2),
                "diags": diags, "diags_ts": ts
            }),
        },
    }
}

pub fn run_acc_ops(case: &Value) -> Value {
    use darling::error::Accumulator;
    let spans = token_spans(case["src"].as_str().unwrap_or(""));
    let ev = |b: &Value| eval(b, &spans).expect("accumulator cases use total builder expressions");
    let mut state: Option<Accumulator> = None;
    let mut trace: Vec<Value> = vec![];
    for op in case["ops"].as_array().unwrap() {
        let mut acc = state.take().unwrap_or_else(Error::accumulator);
        let out = match op["t"].as_str().unwrap() {
            "push" => {
                let e = ev(&op["b"]);
                match catch(move || { acc.push(e); acc }) {
                    Ok(a) => { state = Some(a); json!({"t": "unit"}) }
                    Err(m) => json!({"t": "panicked", "msg": m}),
                }
            }
            "handle_ok" => {
                let v = op["v"].as_u64().unwrap();
                let r = acc.handle(Ok(v));
                state = Some(acc);
                json!({"t": "value", "v": r})
            }
            "handle_err" => {
                let e = ev(&op["b"]);
                let r: Option<u64> = acc.handle(Err(e));
                state = Some(acc);
                json!({"t": "value", "v": r})
            }
            "handle_in_ok" => {
                let v = op["v"].as_u64().unwrap();
                let r = acc.handle_in(|| Ok(v));
                state = Some(acc);
                json!({"t": "value", "v": r})
            }
            "handle_in_err" => {
                let e = ev(&op["b"]);
                let r: Option<u64> = acc.handle_in(|| Err(e));
                state = Some(acc);
                json!({"t": "value", "v": r})
            }
            "extend" => {
                let es: Vec<Error> = op["bs"].as_array().unwrap().iter().map(ev).collect();
                // the same errors through iterators with different size hints
                match op["via"].as_str().unwrap_or("vec") {
                    "filter" => acc.extend(es.into_iter().filter(|_| true)),
                    "flat_map" => acc.extend(es.into_iter().flat_map(|e| vec![e])),
                    "results" => {
                        let rs: Vec<darling::Result<u8>> = es.into_iter().map(Err).collect();
                        acc.extend(rs.into_iter().filter_map(|r| r.err()))
                    }
                    "error_iter" if es.len() >= 2 => acc.extend(Error::multiple(es)),
                    "chain" => acc.extend(std::iter::empty().chain(es)),
                    _ => acc.extend(es),
                }
                state = Some(acc);
                json!({"t": "unit"})
            }
            "checkpoint" => match catch(move || acc.checkpoint()) {
                Ok(Ok(a)) => { state = Some(a); json!({"t": "fresh"}) }
                Ok(Err(e)) => json!({"t": "failed", "e": observe(&e)}),
                Err(m) => json!({"t": "panicked", "msg": m}),
            },
            "finish" => match catch(move || acc.finish()) {
                Ok(Ok(())) => json!({"t": "finished", "v": null}),
                Ok(Err(e)) => json!({"t": "failed", "e": observe(&e)}),
                Err(m) => json!({"t": "panicked", "msg": m}),
            },
            "finish_with" => {
                let v = op["v"].as_u64().unwrap();
                match catch(move || acc.finish_with(v)) {
                    Ok(Ok(v)) => json!({"t": "finished", "v": v}),
                    Ok(Err(e)) => json!({"t": "failed", "e": observe(&e)}),
                    Err(m) => json!({"t": "panicked", "msg": m}),
                }
            }
            "into_inner" => match catch(move || acc.into_inner()) {
                Ok(v) => json!({"t": "vec", "es": v.iter().map(observe).collect::<Vec<_>>()}),
                Err(m) => json!({"t": "panicked", "msg": m}),
            },
            "drop" => match catch(move || drop(acc)) {
                Ok(()) => json!({"t": "quiet"}),
                Err(m) => json!({"t": "panicked", "msg": m}),
            },
            "drop_unwinding" => {
                // the accumulator is dropped while this thread unwinds from another panic;
                // a panic in that drop would abort the process (observed by the driver as a crash)
                let r = catch(move || {
                    let _held = acc;
                    panic!("outer unwinding");
                });
                match r {
                    Err(m) if m == "outer unwinding" => json!({"t": "quiet"}),
                    Err(m) => json!({"t": "panicked", "msg": m}),
                    Ok(()) => json!({"t": "error"}),
                }
            }
            other => panic!("harness: unknown acc op {}", other),
        };
        trace.push(out);
    }
    if let Some(acc) = state.take() {
        let _ = acc.into_inner();
    }
    json!({"trace": trace, "sim": sim_table(case)})
}
