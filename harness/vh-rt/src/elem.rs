//! C08 / C16 (and the element-level half of C01/C02/C07): derived element-level receivers
//! (`FromDeriveInput`, `FromField`, `FromVariant`, `FromTypeParam`, `FromAttributes`) run on the
//! parts of a `syn::DeriveInput` parsed from source text, plus the echo of that input in the
//! model's language (Run/Outer.v).
use crate::dump::Dump;
use crate::errs::observe;
use crate::util::{catch, span_json, toks_explicit};
use darling::ast::NestedMeta;
use quote::ToTokens;
use serde_json::{json, Value};
use syn::spanned::Spanned;

pub enum Elem {
    DeriveInput(syn::DeriveInput),
    Field(syn::Field),
    Variant(syn::Variant),
    TypeParam(syn::TypeParam),
    Attrs(Vec<syn::Attribute>),
}

fn outcome<T: Dump>(r: Result<darling::Result<T>, String>) -> Value {
    match r {
        Err(msg) => json!({"panic": msg}),
        Ok(Ok(v)) => json!({"ok": v.dump()}),
        Ok(Err(e)) => json!({"err": observe(&e)}),
    }
}

pub fn run_di<T: darling::FromDeriveInput + Dump>(el: &Elem) -> Value {
    match el {
        Elem::DeriveInput(d) => outcome(catch(|| T::from_derive_input(d))),
        _ => json!({"error": "receiver takes a DeriveInput"}),
    }
}
pub fn run_field<T: darling::FromField + Dump>(el: &Elem) -> Value {
    match el {
        Elem::Field(f) => outcome(catch(|| T::from_field(f))),
        _ => json!({"error": "receiver takes a Field"}),
    }
}
pub fn run_variant<T: darling::FromVariant + Dump>(el: &Elem) -> Value {
    match el {
        Elem::Variant(v) => outcome(catch(|| T::from_variant(v))),
        _ => json!({"error": "receiver takes a Variant"}),
    }
}
pub fn run_type_param<T: darling::FromTypeParam + Dump>(el: &Elem) -> Value {
    match el {
        Elem::TypeParam(t) => outcome(catch(|| T::from_type_param(t))),
        _ => json!({"error": "receiver takes a TypeParam"}),
    }
}
pub fn run_attrs<T: darling::FromAttributes + Dump>(el: &Elem) -> Value {
    match el {
        Elem::Attrs(a) => outcome(catch(|| T::from_attributes(a))),
        Elem::DeriveInput(d) => outcome(catch(|| T::from_attributes(&d.attrs))),
        _ => json!({"error": "receiver takes attributes"}),
    }
}

// ---------------------------------------------------------------- echo
fn info<T: ToTokens + Spanned>(n: &T) -> Value {
    json!({"span": span_json(n.span()), "toks": toks_explicit(n.to_token_stream())})
}

pub fn attr(a: &syn::Attribute) -> Value {
    let form = match &a.meta {
        syn::Meta::Path(_) => json!({"t": "word"}),
        syn::Meta::NameValue(nv) => json!({"t": "nv", "nv": info(nv)}),
        syn::Meta::List(l) => match NestedMeta::parse_meta_list(l.tokens.clone()) {
            Ok(items) => json!({"t": "list", "ti": info(&l.tokens),
                                "items": items.iter().map(crate::echo::nested).collect::<Vec<_>>()}),
            Err(e) => json!({"t": "badlist", "es": span_json(e.span()), "emsg": e.to_string()}),
        },
    };
    json!({"info": info(a), "path": crate::echo::path(a.path()), "form": form,
           "name_ts": a.path().to_token_stream().to_string()})
}

fn attrs(a: &[syn::Attribute]) -> Value {
    Value::Array(a.iter().map(attr).collect())
}

pub fn field(f: &syn::Field) -> Value {
    json!({"info": info(f), "attrs": attrs(&f.attrs), "ident": f.ident.as_ref().map(|i| i.to_string()),
           "vis": toks_explicit(f.vis.to_token_stream()), "ty": toks_explicit(f.ty.to_token_stream())})
}

fn style(f: &syn::Fields) -> &'static str {
    match f {
        syn::Fields::Named(_) => "named",
        syn::Fields::Unnamed(_) => "tuple",
        syn::Fields::Unit => "unit",
    }
}

pub fn variant(v: &syn::Variant) -> Value {
    json!({"info": info(v), "attrs": attrs(&v.attrs), "ident": v.ident.to_string(),
           "discr": v.discriminant.as_ref().map(|(_, e)| toks_explicit(e.to_token_stream())),
           "style": style(&v.fields), "fields": v.fields.iter().map(field).collect::<Vec<_>>(),
           "fields_toks": toks_explicit(v.fields.to_token_stream())})
}

pub fn gparam(p: &syn::GenericParam) -> Value {
    match p {
        syn::GenericParam::Type(t) => json!({"t": "type", "info": info(t), "attrs": attrs(&t.attrs), "ident": t.ident.to_string(),
            "bounds": t.bounds.iter().map(|b| toks_explicit(b.to_token_stream())).collect::<Vec<_>>(),
            "default": t.default.as_ref().map(|d| toks_explicit(d.to_token_stream()))}),
        syn::GenericParam::Lifetime(l) => json!({"t": "lifetime", "toks": toks_explicit(l.to_token_stream())}),
        syn::GenericParam::Const(c) => json!({"t": "const", "toks": toks_explicit(c.to_token_stream())}),
    }
}

pub fn generics(g: &syn::Generics) -> Value {
    json!({"params": g.params.iter().map(gparam).collect::<Vec<_>>(),
           "params_toks": toks_explicit(g.to_token_stream()),
           "where": g.where_clause.as_ref().map(|w| toks_explicit(w.to_token_stream()))})
}

pub fn derive_input(d: &syn::DeriveInput) -> Value {
    let body = match &d.data {
        syn::Data::Struct(s) => json!({"t": "struct", "style": style(&s.fields),
                                       "fields": s.fields.iter().map(field).collect::<Vec<_>>(),
                                       "fields_toks": toks_explicit(s.fields.to_token_stream())}),
        syn::Data::Enum(e) => json!({"t": "enum", "variants": e.variants.iter().map(variant).collect::<Vec<_>>()}),
        syn::Data::Union(_) => json!({"t": "union"}),
    };
    json!({"info": info(d), "attrs": attrs(&d.attrs), "ident": d.ident.to_string(),
           "vis": toks_explicit(d.vis.to_token_stream()), "generics": generics(&d.generics), "body": body})
}

/// `Fields<syn::Field>` re-printed (C16: reproduces the original fields up to a trailing comma).
fn reprint(f: &syn::Fields) -> Value {
    match catch(|| darling::ast::Fields::<syn::Field>::try_from(f)) {
        Ok(Ok(x)) => Value::String(toks_explicit(x.to_token_stream())),
        Ok(Err(e)) => json!({"err": e.to_string()}),
        Err(p) => json!({"panic": p}),
    }
}

pub fn run_elem(case: &Value) -> Value {
    let src = case["src"].as_str().unwrap_or("");
    let di: syn::DeriveInput = match syn::parse_str(src) {
        Ok(d) => d,
        Err(e) => return json!({"unparsed": e.to_string()}),
    };
    let k = case["index"].as_u64().unwrap_or(0) as usize;
    let fields_of = |d: &syn::DeriveInput| -> Option<syn::Fields> {
        match &d.data {
            syn::Data::Struct(s) => Some(s.fields.clone()),
            _ => None,
        }
    };
    let (el, echo, extra) = match case["entry"].as_str().unwrap_or("derive_input") {
        "derive_input" => {
            let rp = fields_of(&di).map(|f| reprint(&f));
            let e = derive_input(&di);
            (Elem::DeriveInput(di), json!({"t": "derive_input", "e": e}), json!({"reprint": rp}))
        }
        "attributes" => {
            let e = attrs(&di.attrs);
            (Elem::Attrs(di.attrs.clone()), json!({"t": "attributes", "e": e}), Value::Null)
        }
        "field" => match fields_of(&di).and_then(|f| f.iter().nth(k).cloned()) {
            Some(f) => {
                let e = field(&f);
                (Elem::Field(f), json!({"t": "field", "e": e}), Value::Null)
            }
            None => return json!({"unparsed": "no such field"}),
        },
        "variant" => match &di.data {
            syn::Data::Enum(en) if k < en.variants.len() => {
                let v = en.variants[k].clone();
                let rp = reprint(&v.fields);
                let e = variant(&v);
                (Elem::Variant(v), json!({"t": "variant", "e": e}), json!({"reprint": rp}))
            }
            _ => return json!({"unparsed": "no such variant"}),
        },
        "type_param" => match di.generics.params.iter().nth(k) {
            Some(syn::GenericParam::Type(t)) => {
                let e = gparam(&syn::GenericParam::Type(t.clone()));
                (Elem::TypeParam(t.clone()), json!({"t": "type_param", "e": e}), Value::Null)
            }
            _ => return json!({"unparsed": "no such type parameter"}),
        },
        other => return json!({"error": format!("unknown entry {}", other)}),
    };
    let recv = case["recv"].as_str().unwrap_or("");
    let mut out = match crate::ecorpus::dispatch(recv, &el) {
        Some(v) => v,
        None => return json!({"error": format!("unknown receiver {}", recv)}),
    };
    // C16: the element converter applied to every field / variant of the body on its own
    if let Some(sf) = case["sub_f"].as_str() {
        let fields: Option<Vec<syn::Field>> = match &el {
            Elem::DeriveInput(d) => match &d.data {
                syn::Data::Struct(s) => Some(s.fields.iter().cloned().collect()),
                _ => None,
            },
            Elem::Variant(v) => Some(v.fields.iter().cloned().collect()),
            _ => None,
        };
        if let Some(fs) = fields {
            out["sub_out"] = Value::Array(
                fs.into_iter()
                    .map(|f| crate::ecorpus::dispatch(sf, &Elem::Field(f)).unwrap_or_else(|| json!({"error": "unknown sub receiver"})))
                    .collect(),
            );
        }
    }
    if let Some(sv) = case["sub_v"].as_str() {
        if let Elem::DeriveInput(d) = &el {
            if let syn::Data::Enum(e) = &d.data {
                out["sub_out"] = Value::Array(
                    e.variants
                        .iter()
                        .map(|v| crate::ecorpus::dispatch(sv, &Elem::Variant(v.clone())).unwrap_or_else(|| json!({"error": "unknown sub receiver"})))
                        .collect(),
                );
            }
        }
    }
    if let Some(twin) = case["twin_src"].as_str() {
        // the same receiver on a second source (C08: another partition of the same items)
        let mut c2 = case.clone();
        c2["src"] = Value::String(twin.to_string());
        c2.as_object_mut().unwrap().remove("twin_src");
        out["twin"] = run_elem(&c2);
    }
    out["pf"] = crate::conv::float_oracle(&echo);
    if case.get("pairs").is_some() {
        out["sim"] = Value::Array(crate::errs::sim_table(case));
    }
    out["or"] = crate::conv::syn_oracles(&echo);
    out["echo"] = echo;
    out["extra"] = extra;
    out
}

// ---------------------------------------------------------------- Dump of element-level values
impl Dump for syn::Attribute {
    fn dump(&self) -> Value {
        crate::dump::toks(self)
    }
}
impl Dump for syn::Field {
    fn dump(&self) -> Value {
        crate::dump::toks(self)
    }
}
impl Dump for syn::Variant {
    fn dump(&self) -> Value {
        crate::dump::toks(self)
    }
}
impl Dump for syn::TypeParamBound {
    fn dump(&self) -> Value {
        crate::dump::toks(self)
    }
}
impl Dump for syn::LifetimeParam {
    fn dump(&self) -> Value {
        crate::dump::toks(self)
    }
}
impl Dump for syn::ConstParam {
    fn dump(&self) -> Value {
        crate::dump::toks(self)
    }
}
impl Dump for darling::util::Ignored {
    fn dump(&self) -> Value {
        json!({"t": "unit"})
    }
}
impl Dump for syn::Generics {
    fn dump(&self) -> Value {
        json!({"t": "struct", "fs": [json!(["params", crate::dump::toks(self)]),
                                     json!(["where_clause", self.where_clause.dump()])]})
    }
}
impl<P: Dump> Dump for darling::ast::Generics<P> {
    fn dump(&self) -> Value {
        json!({"t": "struct", "fs": [json!(["params", self.params.dump()]),
                                     json!(["where_clause", self.where_clause.dump()])]})
    }
}
impl<T: Dump> Dump for darling::ast::GenericParam<T> {
    fn dump(&self) -> Value {
        let (n, v) = match self {
            darling::ast::GenericParam::Type(t) => ("Type", t.dump()),
            darling::ast::GenericParam::Lifetime(l) => ("Lifetime", l.dump()),
            darling::ast::GenericParam::Const(c) => ("Const", c.dump()),
        };
        json!({"t": "variant", "name": n, "fs": [json!(["0", v])]})
    }
}
impl<F: Dump> Dump for darling::ast::Fields<F> {
    fn dump(&self) -> Value {
        let style = match self.style {
            darling::ast::Style::Struct => "Struct",
            darling::ast::Style::Tuple => "Tuple",
            darling::ast::Style::Unit => "Unit",
        };
        json!({"t": "struct", "fs": [json!(["style", {"t": "str", "v": style}]), json!(["fields", self.fields.dump()])]})
    }
}
impl<V: Dump, F: Dump> Dump for darling::ast::Data<V, F> {
    fn dump(&self) -> Value {
        match self {
            darling::ast::Data::Enum(vs) => json!({"t": "variant", "name": "Enum", "fs": [json!(["0", vs.dump()])]}),
            darling::ast::Data::Struct(f) => json!({"t": "variant", "name": "Struct", "fs": [json!(["0", f.dump()])]}),
        }
    }
}
