//! C11-C15: `T::from_meta` / `from_nested_meta` / `from_none` of library targets on parsed items.
use crate::dump::Dump;
use crate::errs::observe;
use crate::util::catch;
use darling::ast::NestedMeta;
use darling::FromMeta;
use serde_json::{json, Value};

fn outcome<T: Dump>(r: Result<darling::Result<T>, String>) -> Value {
    match r {
        Err(msg) => json!({"panic": msg}),
        Ok(Ok(v)) => json!({"ok": v.dump()}),
        Ok(Err(e)) => json!({"err": observe(&e)}),
    }
}

pub enum Input {
    Meta(syn::Meta),
    Nested(NestedMeta),
    None,
}

pub fn run_t<T: FromMeta + Dump>(input: &Input) -> Value {
    match input {
        Input::Meta(m) => outcome(catch(|| T::from_meta(m))),
        Input::Nested(n) => outcome(catch(|| T::from_nested_meta(n))),
        Input::None => match catch(|| T::from_none()) {
            Err(msg) => json!({"panic": msg}),
            Ok(None) => json!({"none": null}),
            Ok(Some(v)) => json!({"none": v.dump()}),
        },
    }
}

macro_rules! targets {
    ($n:expr, $input:expr; $($t:ty),* $(,)?) => {{
        $( if $n == stringify!($t).chars().filter(|c| !c.is_whitespace()).collect::<String>() {
            return Some(run_t::<$t>($input));
        } )*
        None
    }};
}

mod probes;
mod targets;
pub use targets::dispatch;

/// Parse the case's source.  "meta": `src` is the inside of `#[...]`; "nested": `src` is one item
/// of a list, parsed in list position; "none": no input.
pub fn parse_input(case: &Value) -> Result<(Input, Value), String> {
    let src = case["src"].as_str().unwrap_or("");
    match case["entry"].as_str().unwrap_or("meta") {
        "meta" => {
            let groups = case["group_value"].as_u64().unwrap_or(0);
            let group_all = case["group_all"].as_u64().unwrap_or(0);
            let text = format!("#[{}]\nstruct S;", src);
            let attr: syn::DeriveInput = if group_all != 0 {
                // every `name = VALUE` at every depth gets its value wrapped (macro_rules! fragments inside a list)
                let ts: proc_macro2::TokenStream = text.parse().map_err(|_| "lex error".to_string())?;
                syn::parse2(group_all_values(ts, group_all)).map_err(|e| e.to_string())?
            } else if groups == 0 {
                syn::parse_str(&text).map_err(|e| e.to_string())?
            } else {
                let ts: proc_macro2::TokenStream = text.parse().map_err(|_| "lex error".to_string())?;
                syn::parse2(group_value(ts, groups)?).map_err(|e| e.to_string())?
            };
            let m = attr.attrs[0].meta.clone();
            let echo = crate::echo::meta(&m);
            Ok((Input::Meta(m), echo))
        }
        "nested" => {
            let attr: syn::DeriveInput =
                syn::parse_str(&format!("#[w({})]\nstruct S;", src)).map_err(|e| e.to_string())?;
            let list = attr.attrs[0].meta.require_list().map_err(|e| e.to_string())?;
            let mut items =
                NestedMeta::parse_meta_list(list.tokens.clone()).map_err(|e| e.to_string())?;
            if items.len() != 1 {
                return Err(format!("expected one nested item, got {}", items.len()));
            }
            let n = items.remove(0);
            let echo = crate::echo::nested(&n);
            Ok((Input::Nested(n), echo))
        }
        "none" => Ok((Input::None, Value::Null)),
        other => Err(format!("unknown entry {}", other)),
    }
}

pub fn float_oracle(echo: &Value) -> Value {
    let mut strs = vec![];
    crate::echo::float_strings(echo, &mut strs);
    strs.sort();
    strs.dedup();
    let rows: Vec<Value> = strs
        .iter()
        .map(|s| {
            json!([s, s.parse::<f32>().ok().map(|f| f.to_bits() as u64), s.parse::<f64>().ok().map(|f| f.to_bits())])
        })
        .collect();
    Value::Array(rows)
}

fn all_strings(v: &Value, out: &mut Vec<String>) {
    match v {
        Value::Object(o) => {
            if o.get("t").and_then(|t| t.as_str()) == Some("str") {
                if let Some(s) = o.get("v").and_then(|s| s.as_str()) {
                    out.push(s.to_string());
                }
            }
            for (_, x) in o {
                all_strings(x, out);
            }
        }
        Value::Array(a) => a.iter().for_each(|x| all_strings(x, out)),
        _ => {}
    }
}

fn ts<T: quote::ToTokens>(r: syn::Result<T>) -> Value {
    match r {
        Ok(t) => Value::String(t.to_token_stream().to_string()),
        Err(_) => Value::Null,
    }
}

/// syn's own parsers applied to the contents of every string literal of the input
/// (independent of darling): the `reparse` oracles of Conv/SynValues.v.
pub fn syn_oracles(echo: &Value) -> Value {
    use syn::punctuated::Punctuated;
    use syn::Token;
    let mut strs = vec![];
    all_strings(echo, &mut strs);
    strs.sort();
    strs.dedup();
    let mut parse = vec![];
    let mut arr = vec![];
    let mut preds = vec![];
    for s in &strs {
        macro_rules! g {
            ($name:expr, $t:ty) => {
                parse.push(json!([$name, s, ts(syn::parse_str::<$t>(s))]));
            };
        }
        g!("Expr", syn::Expr);
        g!("Path", syn::Path);
        g!("Ident", syn::Ident);
        g!("ExprArray", syn::ExprArray);
        g!("ExprPath", syn::ExprPath);
        g!("ExprRange", syn::ExprRange);
        g!("syn:Type", syn::Type);
        g!("syn:TypeArray", syn::TypeArray);
        g!("syn:TypeBareFn", syn::TypeBareFn);
        g!("syn:TypeImplTrait", syn::TypeImplTrait);
        g!("syn:TypeInfer", syn::TypeInfer);
        g!("syn:TypeMacro", syn::TypeMacro);
        g!("syn:TypeNever", syn::TypeNever);
        g!("syn:TypeParen", syn::TypeParen);
        g!("syn:TypePath", syn::TypePath);
        g!("syn:TypePtr", syn::TypePtr);
        g!("syn:TypeReference", syn::TypeReference);
        g!("syn:TypeSlice", syn::TypeSlice);
        g!("syn:TypeTraitObject", syn::TypeTraitObject);
        g!("syn:TypeTuple", syn::TypeTuple);
        g!("syn:Visibility", syn::Visibility);
        g!("syn:WhereClause", syn::WhereClause);
        {
            use syn::parse::Parser;
            let p = Punctuated::<syn::Path, Token![,]>::parse_terminated.parse_str(s);
            parse.push(json!(["punct:Path", s, ts(p)]));
            let p = Punctuated::<syn::Ident, Token![,]>::parse_terminated.parse_str(s);
            parse.push(json!(["punct:Ident", s, ts(p)]));
        }
        arr.push(json!([s, syn::parse_str::<syn::ExprArray>(s).ok().map(|a| crate::echo::expr(&syn::Expr::Array(a)))]));
        preds.push(json!([s, syn::parse_str::<syn::WhereClause>(&format!("where {}", s)).ok().map(|w| {
            w.predicates.iter().map(|p| quote::ToTokens::to_token_stream(p).to_string()).collect::<Vec<_>>()
        })]));
    }
    json!({"parse": parse, "arr": arr, "preds": preds})
}

pub fn run_conv(case: &Value) -> Value {
    let (input, echo) = match parse_input(case) {
        Ok(x) => x,
        Err(e) => return json!({"unparsed": e}),
    };
    let target = case["target"].as_str().unwrap_or("");
    let helper = |f: fn(&syn::Meta) -> darling::Result<syn::Expr>| match &input {
        Input::Meta(m) => Some(outcome(catch(|| f(m)))),
        _ => Some(json!({"error": "helpers take a Meta"})),
    };
    let r = match target {
        "helper:preserve" => helper(darling::util::parse_expr::preserve_str_literal),
        "helper:parse" => helper(darling::util::parse_expr::parse_str_literal),
        _ => dispatch(target, &input).or_else(|| crate::corpus::dispatch(target, &input)),
    };
    match r {
        None => json!({"error": format!("unknown target {}", target)}),
        Some(mut out) => {
            if let Some(inner) = case["inner"].as_str() {
                out["inner_out"] = dispatch(inner, &input)
                    .unwrap_or_else(|| json!({"error": format!("unknown target {}", inner)}));
            }
            if let Some(elem) = case["per_item"].as_str() {
                // the element type on every item of the top-level list (null for literal items)
                if let Input::Meta(syn::Meta::List(l)) = &input {
                    if let Ok(items) = NestedMeta::parse_meta_list(l.tokens.clone()) {
                        let outs: Vec<Value> = items
                            .iter()
                            .map(|n| match n {
                                NestedMeta::Meta(m) => dispatch(elem, &Input::Meta(m.clone()))
                                    .unwrap_or_else(|| json!({"error": "unknown element target"})),
                                NestedMeta::Lit(_) => Value::Null,
                            })
                            .collect();
                        out["items_out"] = Value::Array(outs);
                    }
                }
            }
            if let Some(twin) = case["twin"].as_str() {
                out["twin_out"] = dispatch(twin, &input).unwrap_or_else(|| json!({"error": "unknown twin"}));
            }
            out["pf"] = float_oracle(&echo);
            if case.get("pairs").is_some() {
                out["sim"] = Value::Array(crate::errs::sim_table(case));
            }
            if case["oracles"].as_bool().unwrap_or(false) {
                out["or"] = syn_oracles(&echo);
            }
            out["echo"] = echo;
            out
        }
    }
}

/// Exhaustive sweep for one integer target: the maximal intervals of [lo, hi] on which the
/// conversion of the decimal spelling returns exactly the denoted value (quoted and unquoted),
/// and the number of values for which it returned some *other* value.
pub fn run_int_sweep(case: &Value) -> Value {
    let target = case["target"].as_str().unwrap_or("");
    let lo = case["lo"].as_i64().unwrap();
    let hi = case["hi"].as_i64().unwrap();
    let mut wrong = 0u64;
    let mut sweep = |quoted: bool| -> Vec<[i64; 2]> {
        let mut out: Vec<[i64; 2]> = vec![];
        let mut cur: Option<[i64; 2]> = None;
        for v in lo..=hi {
            let src = if quoted { format!("x = \"{}\"", v) } else { format!("x = {}", v) };
            let m: syn::Meta = syn::parse_str(&src).expect("sweep source parses");
            let r = dispatch(target, &Input::Meta(m)).expect("known target");
            let exact = match r.get("ok") {
                Some(val) => {
                    if val["v"].as_str() == Some(&v.to_string()) {
                        true
                    } else {
                        wrong += 1;
                        false
                    }
                }
                None => {
                    if r.get("panic").is_some() {
                        wrong += 1;
                    }
                    false
                }
            };
            match (&mut cur, exact) {
                (Some(c), true) => c[1] = v,
                (None, true) => cur = Some([v, v]),
                (Some(c), false) => {
                    out.push(*c);
                    cur = None;
                }
                (None, false) => {}
            }
        }
        if let Some(c) = cur {
            out.push(c);
        }
        out
    };
    let q = sweep(true);
    let u = sweep(false);
    json!({"quoted": q, "unquoted": u, "wrong": wrong})
}

/// Wrap the value of every `name = VALUE` item, at every depth of every delimited group, in `n % 4` nested
/// invisible (None-delimited) groups spanning the value - what `#[x(a = $v, b($k = $w))]` looks like when the
/// values are `macro_rules!` fragments.  With `n >= 4` a leading `-` stays outside the group (`a = -$v`).
fn group_all_values(ts: proc_macro2::TokenStream, n: u64) -> proc_macro2::TokenStream {
    use proc_macro2::{Delimiter, Group, TokenStream, TokenTree};
    let depth = n % 4;
    let neg_outside = n >= 4;
    let toks: Vec<TokenTree> = ts.into_iter().collect();
    let mut out: Vec<TokenTree> = vec![];
    let mut i = 0;
    while i < toks.len() {
        match &toks[i] {
            TokenTree::Group(g) if g.delimiter() != Delimiter::None => {
                let mut ng = Group::new(g.delimiter(), group_all_values(g.stream(), n));
                ng.set_span(g.span());
                out.push(TokenTree::Group(ng));
                i += 1;
            }
            TokenTree::Punct(p)
                if p.as_char() == '='
                    && p.spacing() == proc_macro2::Spacing::Alone
                    && matches!(out.last(), Some(TokenTree::Ident(_))) =>
            {
                out.push(toks[i].clone());
                i += 1;
                // the value: up to the next `,` of this level
                let mut value: Vec<TokenTree> = vec![];
                while i < toks.len() && !matches!(&toks[i], TokenTree::Punct(q) if q.as_char() == ',') {
                    value.push(toks[i].clone());
                    i += 1;
                }
                if value.is_empty() || depth == 0 {
                    out.extend(value);
                    continue;
                }
                let mut head: Vec<TokenTree> = vec![];
                if neg_outside && value.len() > 1 && matches!(&value[0], TokenTree::Punct(q) if q.as_char() == '-') {
                    head.push(value.remove(0));
                }
                let span = value
                    .first()
                    .unwrap()
                    .span()
                    .join(value.last().unwrap().span())
                    .unwrap_or_else(|| value.first().unwrap().span());
                let mut stream: TokenStream = value.into_iter().collect();
                for _ in 0..depth {
                    let mut g = Group::new(Delimiter::None, stream);
                    g.set_span(span);
                    stream = std::iter::once(TokenTree::Group(g)).collect();
                }
                out.extend(head);
                out.extend(stream);
            }
            t => {
                out.push(t.clone());
                i += 1;
            }
        }
    }
    out.into_iter().collect()
}

/// `# [ name = VALUE ] ...`: wrap VALUE in `n` nested invisible (None-delimited) groups, each
/// spanning the value, as a macro_rules! `$e:expr` substitution produces.
fn group_value(ts: proc_macro2::TokenStream, n: u64) -> Result<proc_macro2::TokenStream, String> {
    use proc_macro2::{Delimiter, Group, TokenStream, TokenTree};
    let mut toks: Vec<TokenTree> = ts.into_iter().collect();
    let bracket = match toks.get(1) {
        Some(TokenTree::Group(g)) if g.delimiter() == Delimiter::Bracket => g.clone(),
        _ => return Err("no attribute bracket".into()),
    };
    let inner: Vec<TokenTree> = bracket.stream().into_iter().collect();
    let eq = inner
        .iter()
        .position(|t| matches!(t, TokenTree::Punct(p) if p.as_char() == '='))
        .ok_or("group_value needs a name-value attribute")?;
    let value: Vec<TokenTree> = inner[eq + 1..].to_vec();
    if value.is_empty() {
        return Err("empty value".into());
    }
    let span = value.first().unwrap().span().join(value.last().unwrap().span()).unwrap();
    let mut stream: TokenStream = value.into_iter().collect();
    for _ in 0..n {
        let mut g = Group::new(Delimiter::None, stream);
        g.set_span(span);
        stream = std::iter::once(TokenTree::Group(g)).collect();
    }
    let mut new_inner: Vec<TokenTree> = inner[..=eq].to_vec();
    new_inner.extend(stream);
    let mut nb = Group::new(Delimiter::Bracket, new_inner.into_iter().collect());
    nb.set_span(bracket.span());
    toks[1] = TokenTree::Group(nb);
    Ok(toks.into_iter().collect())
}
