//! C19: the usage analysis on types parsed from text, with the syn tree mirrored in the model's
//! `node` language (Usage/Usage.v).  The mirror is trusted glue.
use crate::util::catch;
use darling::usage::{IdentSet, LifetimeSet, Options, Purpose, UsesLifetimes, UsesTypeParams};
use serde_json::{json, Value};
use syn::{GenericArgument, PathArguments, ReturnType, Type, TypeParamBound};

fn lts_of(b: &Option<syn::BoundLifetimes>) -> Vec<String> {
    let mut out = vec![];
    if let Some(b) = b {
        for p in &b.lifetimes {
            if let syn::GenericParam::Lifetime(lp) = p {
                out.push(lp.lifetime.to_string());
                for x in &lp.bounds {
                    out.push(x.to_string());
                }
            }
        }
    }
    out
}

fn ret(r: &ReturnType) -> Value {
    match r {
        ReturnType::Default => Value::Null,
        ReturnType::Type(_, t) => ty(t),
    }
}

fn path(q: Option<&syn::QSelf>, p: &syn::Path) -> Value {
    let segs: Vec<Value> = p.segments.iter().map(|s| json!([s.ident.to_string(), args(&s.arguments)])).collect();
    json!({"t": "path", "q": q.map(|q| ty(&q.ty)), "leading": p.leading_colon.is_some(), "segs": segs})
}

fn bound(b: &TypeParamBound) -> Value {
    match b {
        TypeParamBound::Trait(tb) => json!({"t": "btrait", "lts": lts_of(&tb.lifetimes), "p": path(None, &tb.path)}),
        TypeParamBound::Lifetime(l) => json!({"t": "blt", "lt": l.to_string()}),
        _ => json!({"t": "bother"}),
    }
}

/// the generic arguments written on the NAME of an associated type (`Gat<T> = ..`, `Gat<'a>: ..`)
fn own_args(g: &Option<syn::AngleBracketedGenericArguments>) -> Value {
    match g {
        None => json!({"t": "noargs"}),
        Some(x) => json!({"t": "angle", "args": x.args.iter().map(garg).collect::<Vec<_>>()}),
    }
}

fn garg(g: &GenericArgument) -> Value {
    match g {
        GenericArgument::Type(t) => json!({"t": "argtype", "e": ty(t)}),
        GenericArgument::Lifetime(l) => json!({"t": "arglt", "lt": l.to_string()}),
        GenericArgument::AssocType(a) => json!({"t": "assoc", "g": own_args(&a.generics), "e": ty(&a.ty)}),
        GenericArgument::Constraint(c) => {
            json!({"t": "constraint", "g": own_args(&c.generics), "bs": c.bounds.iter().map(bound).collect::<Vec<_>>()})
        }
        GenericArgument::Const(_) | GenericArgument::AssocConst(_) => json!({"t": "argconst"}),
        _ => json!({"t": "argconst"}),
    }
}

fn args(a: &PathArguments) -> Value {
    match a {
        PathArguments::None => json!({"t": "noargs"}),
        PathArguments::AngleBracketed(x) => json!({"t": "angle", "args": x.args.iter().map(garg).collect::<Vec<_>>()}),
        PathArguments::Parenthesized(x) => {
            json!({"t": "parenargs", "ins": x.inputs.iter().map(ty).collect::<Vec<_>>(), "out": ret(&x.output)})
        }
    }
}

pub fn ty(t: &Type) -> Value {
    match t {
        Type::Slice(x) => json!({"t": "slice", "e": ty(&x.elem)}),
        Type::Array(x) => json!({"t": "array", "e": ty(&x.elem)}),
        Type::Ptr(x) => json!({"t": "ptr", "e": ty(&x.elem)}),
        Type::Reference(x) => json!({"t": "ref", "lt": x.lifetime.as_ref().map(|l| l.to_string()), "e": ty(&x.elem)}),
        Type::BareFn(x) => json!({"t": "barefn", "lts": lts_of(&x.lifetimes),
            "ins": x.inputs.iter().map(|a| ty(&a.ty)).collect::<Vec<_>>(), "out": ret(&x.output)}),
        Type::Tuple(x) => json!({"t": "tuple", "es": x.elems.iter().map(ty).collect::<Vec<_>>()}),
        Type::Paren(x) => json!({"t": "paren", "e": ty(&x.elem)}),
        Type::Group(x) => json!({"t": "group", "e": ty(&x.elem)}),
        Type::Path(x) => path(x.qself.as_ref(), &x.path),
        Type::TraitObject(x) => json!({"t": "traitobject", "bs": x.bounds.iter().map(bound).collect::<Vec<_>>()}),
        Type::ImplTrait(x) => json!({"t": "impltrait", "bs": x.bounds.iter().map(bound).collect::<Vec<_>>()}),
        Type::Macro(_) | Type::Verbatim(_) | Type::Infer(_) | Type::Never(_) => json!({"t": "opaque"}),
        _ => json!({"t": "unknowntype"}),
    }
}

pub fn run_usage(case: &Value) -> Value {
    let mut types: Vec<Type> = vec![];
    for s in case["types"].as_array().unwrap() {
        match syn::parse_str::<Type>(s.as_str().unwrap()) {
            Ok(t) => types.push(t),
            Err(e) => return json!({"unparsed": format!("{}: {}", s, e)}),
        }
    }
    let nodes: Vec<Value> = types.iter().map(ty).collect();
    let opts: Options = if case["declare"].as_bool().unwrap() { Purpose::Declare } else { Purpose::BoundImpl }.into();
    let names: Vec<&str> = case["set"].as_array().unwrap().iter().map(|s| s.as_str().unwrap()).collect();
    let single = types.len() == 1 && !case["collection"].as_bool().unwrap_or(false);
    let r = if case["lifetimes"].as_bool().unwrap() {
        let set: LifetimeSet = names.iter().map(|n| syn::Lifetime::new(n, proc_macro2::Span::call_site())).collect();
        catch(|| {
            let hits = if single { types[0].uses_lifetimes(&opts, &set) } else { types.uses_lifetimes(&opts, &set) };
            let mut v: Vec<String> = hits.into_iter().map(|l| l.to_string()).collect();
            v.sort();
            v
        })
    } else {
        let set: IdentSet = names.iter().map(|n| syn::parse_str::<syn::Ident>(n).expect("identifier")).collect();
        catch(|| {
            let hits = if single { types[0].uses_type_params(&opts, &set) } else { types.uses_type_params(&opts, &set) };
            let mut v: Vec<String> = hits.into_iter().map(|l| l.to_string()).collect();
            v.sort();
            v
        })
    };
    match r {
        Ok(v) => json!({"nodes": nodes, "hits": v}),
        Err(m) => json!({"nodes": nodes, "panic": m}),
    }
}
