use proc_macro2::Span;
use serde_json::{json, Value};
use std::any::Any;

pub fn panic_msg(p: &Box<dyn Any + Send>) -> String {
    if let Some(s) = p.downcast_ref::<&str>() {
        (*s).to_string()
    } else if let Some(s) = p.downcast_ref::<String>() {
        s.clone()
    } else {
        "<non-string panic>".to_string()
    }
}

/// (line, col, line, col) of a span; call_site outside a macro is (0,0,0,0).
pub fn span_range(s: Span) -> [u64; 4] {
    let a = s.start();
    let b = s.end();
    [a.line as u64, a.column as u64, b.line as u64, b.column as u64]
}

pub fn span_json(s: Span) -> Value {
    let r = span_range(s);
    json!([r[0], r[1], r[2], r[3]])
}

/// None for the call-site span (never the span of parsed text).
pub fn span_opt_json(s: Span) -> Value {
    let r = span_range(s);
    if r == [0, 0, 0, 0] || r == [1, 0, 1, 0] {
        Value::Null
    } else {
        json!([r[0], r[1], r[2], r[3]])
    }
}

/// Run `f`, reporting a panic as Err(message).
pub fn catch<T>(f: impl FnOnce() -> T) -> Result<T, String> {
    std::panic::catch_unwind(std::panic::AssertUnwindSafe(f)).map_err(|p| panic_msg(&p))
}

/// Token string in which invisible (None-delimited) groups are visible as U+27E6 / U+27E7 brackets
/// (`to_string()` prints them transparently, which would hide a stray group in a converted value).
pub fn toks_explicit(ts: proc_macro2::TokenStream) -> String {
    use proc_macro2::{Delimiter, TokenStream, TokenTree};
    fn conv(ts: TokenStream) -> TokenStream {
        ts.into_iter()
            .flat_map(|t| -> Vec<TokenTree> {
                match t {
                    TokenTree::Group(g) if g.delimiter() == Delimiter::None => {
                        let mut v: Vec<TokenTree> = vec![TokenTree::Ident(proc_macro2::Ident::new("__GROUP_OPEN__", g.span()))];
                        v.extend(conv(g.stream()));
                        v.push(TokenTree::Ident(proc_macro2::Ident::new("__GROUP_CLOSE__", g.span())));
                        v
                    }
                    TokenTree::Group(g) => {
                        let mut n = proc_macro2::Group::new(g.delimiter(), conv(g.stream()));
                        n.set_span(g.span());
                        vec![TokenTree::Group(n)]
                    }
                    other => vec![other],
                }
            })
            .collect()
    }
    conv(ts).to_string().replace("__GROUP_OPEN__", "\u{27e6}").replace("__GROUP_CLOSE__", "\u{27e7}")
}
