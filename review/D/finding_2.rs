//! finding_2: `name = -<literal>` where the literal sits in an invisible (None-delimited) group -
//! what `name = -$n` looks like when `$n` is a macro_rules! fragment - is accepted when it is the
//! last item of its list and rejected ("Unexpected type `unary`") when another item follows.
//! Properties C11 / C15.
use darling::ast::NestedMeta;
use darling::{FromMeta, Result};
use proc_macro2::{Delimiter, Group, TokenStream, TokenTree};
use quote::quote;

/// What rustc hands to a proc-macro for a `$n:literal` / `$n:expr` fragment.
fn invisible(ts: TokenStream) -> TokenStream {
    TokenTree::Group(Group::new(Delimiter::None, ts)).into()
}

fn first_item(list: TokenStream) -> syn::Meta {
    match NestedMeta::parse_meta_list(list).unwrap().into_iter().next().unwrap() {
        NestedMeta::Meta(m) => m,
        NestedMeta::Lit(_) => unreachable!(),
    }
}

#[derive(Debug, FromMeta, PartialEq)]
struct Receiver {
    level: i8,
    #[darling(default)]
    other: bool,
}

#[test]
fn control_positive_group_literal_is_transparent_everywhere() {
    let n = invisible(quote!(5));
    assert_eq!(i8::from_meta(&first_item(quote!(x = #n))).unwrap(), 5);
    assert_eq!(i8::from_meta(&first_item(quote!(x = #n, y))).unwrap(), 5);
}

#[test]
fn control_negated_group_literal_as_last_item() {
    let n = invisible(quote!(5));
    assert_eq!(i8::from_meta(&first_item(quote!(x = -#n))).unwrap(), -5);
}

#[test]
fn negated_group_literal_before_another_item() {
    let n = invisible(quote!(5));
    // same item, only followed by `, y`
    assert_eq!(i8::from_meta(&first_item(quote!(x = -#n, y))).unwrap(), -5);
}

#[test]
fn negated_group_float_before_another_item() {
    let n = invisible(quote!(1.5));
    assert_eq!(f64::from_meta(&first_item(quote!(x = -#n, y))).unwrap(), -1.5);
}

#[test]
fn derived_receiver_depends_on_item_order() {
    let n = invisible(quote!(5));
    let a = Receiver::from_list(&NestedMeta::parse_meta_list(quote!(other, level = -#n)).unwrap());
    let b = Receiver::from_list(&NestedMeta::parse_meta_list(quote!(level = -#n, other)).unwrap());
    assert_eq!(a.unwrap(), Receiver { level: -5, other: true });
    // fails: "Unexpected type `unary` at level"
    assert_eq!(b.unwrap(), Receiver { level: -5, other: true });
}

/// An implementer that only overrides the generic-literal hook must get the negative literal
/// whether or not the digits are wrapped in an invisible group (C15: "with invisible groups transparent").
struct OnlyValue(String);
impl FromMeta for OnlyValue {
    fn from_value(lit: &syn::Lit) -> Result<Self> {
        Ok(OnlyValue(quote!(#lit).to_string()))
    }
}

#[test]
fn routed_to_the_literal_hook() {
    let n = invisible(quote!(5));
    let plain = OnlyValue::from_meta(&first_item(quote!(x = -5, y))).unwrap();
    assert_eq!(plain.0, "- 5");
    let grouped = OnlyValue::from_meta(&first_item(quote!(x = -#n, y)))
        .map(|v| v.0)
        .map_err(|e| e.to_string());
    assert_eq!(grouped, Ok("- 5".to_string()));
}
