//! finding_3: `darling::util::parse_expr::parse_str_literal` does not parse the contents of a
//! string literal that arrives inside an invisible (None-delimited) group; it then behaves exactly
//! like `preserve_str_literal`, and differently from `syn::Expr`'s own `FromMeta` impl.
//! Property C13.
use darling::ast::NestedMeta;
use darling::util::parse_expr::{parse_str_literal, preserve_str_literal};
use darling::FromMeta;
use proc_macro2::{Delimiter, Group, TokenStream, TokenTree};
use quote::{quote, ToTokens};

fn invisible(ts: TokenStream) -> TokenStream {
    TokenTree::Group(Group::new(Delimiter::None, ts)).into()
}

fn first_item(list: TokenStream) -> syn::Meta {
    match NestedMeta::parse_meta_list(list).unwrap().into_iter().next().unwrap() {
        NestedMeta::Meta(m) => m,
        NestedMeta::Lit(_) => unreachable!(),
    }
}

fn print(e: darling::Result<syn::Expr>) -> String {
    e.unwrap().to_token_stream().to_string()
}

#[derive(FromMeta)]
struct Receiver {
    #[darling(with = parse_str_literal)]
    parsed: syn::Expr,
    #[darling(with = preserve_str_literal)]
    kept: syn::Expr,
    plain: syn::Expr,
}

#[test]
fn control_plain_string_literal() {
    let m = first_item(quote!(x = "a + b", y));
    assert_eq!(print(parse_str_literal(&m)), "a + b");
    assert_eq!(print(preserve_str_literal(&m)), "\"a + b\"");
    assert_eq!(print(syn::Expr::from_meta(&m)), "a + b");
}

#[test]
fn control_grouped_string_literal_as_last_item() {
    // syn hands this one over as a plain `Expr::Lit`
    let s = invisible(quote!("a + b"));
    let m = first_item(quote!(x = #s));
    assert_eq!(print(parse_str_literal(&m)), "a + b");
}

#[test]
fn grouped_string_literal_before_another_item() {
    let s = invisible(quote!("a + b"));
    let m = first_item(quote!(x = #s, y));
    // the value is `Expr::Group(Expr::Lit("a + b"))`
    assert_eq!(print(syn::Expr::from_meta(&m)), "a + b"); // passes
    assert_eq!(print(preserve_str_literal(&m)), "\"a + b\""); // passes
    // fails: left is "\"a + b\"" - the helper that must parse the string keeps it
    assert_eq!(print(parse_str_literal(&m)), "a + b");
}

#[test]
fn derived_receiver() {
    let s = invisible(quote!("a + b"));
    let items = NestedMeta::parse_meta_list(quote!(parsed = #s, kept = #s, plain = #s)).unwrap();
    let r = Receiver::from_list(&items).unwrap();
    assert_eq!(r.kept.to_token_stream().to_string(), "\"a + b\"");
    assert_eq!(r.plain.to_token_stream().to_string(), "a + b");
    // fails: "\"a + b\""
    assert_eq!(r.parsed.to_token_stream().to_string(), "a + b");
}
