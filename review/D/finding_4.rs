//! finding_4: `SpannedValue<T>` built from an item with an EMPTY list (`name()`, `name[]`, `name{}`)
//! records `Span::call_site()` instead of a source range of the item.
//! Property C12 ("SpannedValue records the value's own source range").
//!
//! Spans can only be told apart when proc-macro2 tracks locations. Run with
//!
//!   RUSTFLAGS="--cfg procmacro2_semver_exempt" cargo test --offline --test finding_4
//!
//! (that cfg turns on `span_locations` in proc-macro2's build script; no source or manifest change
//! is needed). Without the cfg the file compiles to a single test that fails with a message saying so.
use darling::ast::NestedMeta;
use darling::util::SpannedValue;
use darling::FromMeta;

#[allow(dead_code)]
fn first_item(src: &str) -> syn::Meta {
    let items = NestedMeta::parse_meta_list(src.parse().unwrap()).unwrap();
    match items.into_iter().next().unwrap() {
        NestedMeta::Meta(m) => m,
        NestedMeta::Lit(_) => unreachable!(),
    }
}

#[cfg(not(procmacro2_semver_exempt))]
#[test]
fn needs_span_locations() {
    panic!("re-run with RUSTFLAGS=\"--cfg procmacro2_semver_exempt\" so that spans carry locations");
}

#[cfg(procmacro2_semver_exempt)]
mod located {
    use super::*;
    use syn::spanned::Spanned;

    fn cols(s: proc_macro2::Span) -> (usize, usize) {
        (s.start().column, s.end().column)
    }

    #[test]
    fn control_non_empty_forms() {
        // `     abc = 5`  - the value is at columns 11..12
        let m = first_item("     abc = 5, z");
        assert_eq!(cols(SpannedValue::<u8>::from_meta(&m).unwrap().span()), (11, 12));
        // `     abc(d, e)` - the contents are at columns 9..13
        let m = first_item("     abc(d, e), z");
        let v = SpannedValue::<darling::util::PathList>::from_meta(&m).unwrap();
        assert_eq!(cols(v.span()), (9, 13));
        // `     abc` - the word
        let m = first_item("     abc, z");
        assert_eq!(cols(SpannedValue::<bool>::from_meta(&m).unwrap().span()), (5, 8));
    }

    #[test]
    fn empty_list_has_a_span_inside_the_item() {
        // `     abc()` occupies columns 5..10
        let m = first_item("     abc(), z");
        assert_eq!(cols(m.span()), (5, 10));
        let v = SpannedValue::<darling::util::PathList>::from_meta(&m).unwrap();
        let (start, end) = cols(v.span());
        // fails: the recorded span is the call site (0, 0)
        assert!(
            start >= 5 && end <= 10 && end > start,
            "span of the value of `abc()` is {:?}, outside the item at columns 5..10",
            (start, end)
        );
    }

    #[test]
    fn empty_map_has_a_span_inside_the_item() {
        let m = first_item("     abc[], z");
        let v = SpannedValue::<std::collections::HashMap<String, u8>>::from_meta(&m).unwrap();
        let (start, end) = cols(v.span());
        assert!(
            start >= 5 && end <= 10 && end > start,
            "span of the value of `abc[]` is {:?}, outside the item at columns 5..10",
            (start, end)
        );
    }

    /// Second, smaller symptom: the same item handed over as a list entry
    /// (`from_nested_meta`) records the whole item `abc = 5` instead of the value `5`.
    #[test]
    fn same_item_same_span_whichever_entry_point() {
        let items = NestedMeta::parse_meta_list("     abc = 5, z".parse().unwrap()).unwrap();
        let via_meta = match &items[0] {
            NestedMeta::Meta(m) => SpannedValue::<u8>::from_meta(m).unwrap(),
            NestedMeta::Lit(_) => unreachable!(),
        };
        let via_nested = SpannedValue::<u8>::from_nested_meta(&items[0]).unwrap();
        assert_eq!(cols(via_meta.span()), (11, 12));
        // fails: (5, 12)
        assert_eq!(cols(via_nested.span()), (11, 12));
    }
}
