//! finding_1: float targets reject unquoted literals written in integer form
//! (`2`, `-2`, `2f32`, `2_f64`), although the same decimal spelling in quotes is accepted.
//! Property C11.
use darling::ast::NestedMeta;
use darling::FromMeta;

/// `x = <src>` as the only (last) item.
fn last(src: &str) -> syn::Meta {
    syn::parse_str::<syn::Meta>(&format!("x = {src}")).unwrap()
}

/// `x = <src>` followed by another item of the same list.
fn followed(src: &str) -> syn::Meta {
    let items = NestedMeta::parse_meta_list(format!("x = {src}, y").parse().unwrap()).unwrap();
    match items.into_iter().next().unwrap() {
        NestedMeta::Meta(m) => m,
        NestedMeta::Lit(_) => unreachable!(),
    }
}

#[test]
fn quoted_plain_decimal_is_accepted() {
    // passes: this is the reference behaviour
    assert_eq!(f64::from_meta(&last("\"2\"")).unwrap(), 2.0);
    assert_eq!(f32::from_meta(&last("\"-2\"")).unwrap(), -2.0);
}

#[test]
fn unquoted_plain_decimal_means_the_same_as_quoted_f64() {
    // "2".parse::<f64>() == Ok(2.0), so `x = 2` has to be 2.0 as well
    assert_eq!(f64::from_meta(&last("2")).unwrap(), 2.0);
    assert_eq!(f64::from_meta(&followed("2")).unwrap(), 2.0);
}

#[test]
fn unquoted_plain_decimal_means_the_same_as_quoted_f32() {
    assert_eq!(f32::from_meta(&last("2")).unwrap(), 2.0);
}

#[test]
fn unquoted_negative_plain_decimal() {
    assert_eq!(f64::from_meta(&last("-2")).unwrap(), -2.0);
    assert_eq!(f64::from_meta(&followed("-2")).unwrap(), -2.0);
}

#[test]
fn float_suffix_on_digits_without_a_point() {
    // `2f32` / `2_f64` are float literals of the Rust language; the suffix must not matter
    assert_eq!(f32::from_meta(&last("2f32")).unwrap(), 2.0);
    assert_eq!(f64::from_meta(&last("2_f64")).unwrap(), 2.0);
    assert_eq!(f64::from_meta(&last("2f32")).unwrap(), 2.0);
}

#[test]
fn control_same_literals_with_a_point_are_accepted() {
    // passes: shows that only the missing `.`/exponent makes the difference
    assert_eq!(f32::from_meta(&last("2.0f32")).unwrap(), 2.0);
    assert_eq!(f64::from_meta(&last("2.")).unwrap(), 2.0);
    assert_eq!(f64::from_meta(&followed("-2.0")).unwrap(), -2.0);
}
