//! finding_5: the wrapper types are transparent only for `from_meta`. Fed through the other two
//! entry points the crate itself uses - `from_list` (what `#[darling(flatten)]` calls) and
//! `from_nested_meta` (what list-valued targets call for each entry, literals included) - several
//! wrappers reject what the wrapped type accepts, and `darling::Result<T>` fails outwardly.
//! Property C12.
use darling::ast::NestedMeta;
use darling::util::{Override, SpannedValue, WithOriginal};
use darling::FromMeta;
use quote::quote;
use std::rc::Rc;

#[derive(Debug, FromMeta, PartialEq)]
struct Inner {
    a: u8,
}

fn items() -> Vec<NestedMeta> {
    NestedMeta::parse_meta_list(quote!(a = 1, z = 2)).unwrap()
}

// ---- flatten -------------------------------------------------------------------------------

#[derive(Debug, FromMeta)]
struct Plain {
    #[darling(flatten)]
    i: Inner,
    z: u8,
}
#[derive(Debug, FromMeta)]
struct Boxed {
    #[darling(flatten)]
    i: Box<Inner>,
    z: u8,
}
#[derive(Debug, FromMeta)]
struct Overridden {
    #[darling(flatten)]
    i: Override<Inner>,
    z: u8,
}
#[derive(Debug, FromMeta)]
struct Fallible {
    #[darling(flatten)]
    i: darling::Result<Inner>,
    z: u8,
}
#[derive(Debug, FromMeta)]
struct Optional {
    #[darling(flatten)]
    i: Option<Inner>,
    z: u8,
}
#[derive(Debug, FromMeta)]
struct Spanned {
    #[darling(flatten)]
    i: SpannedValue<Inner>,
    z: u8,
}
#[derive(Debug, FromMeta)]
struct Original {
    #[darling(flatten)]
    i: std::result::Result<Inner, syn::Meta>,
    z: u8,
}

#[test]
fn control_flatten_through_wrappers_that_forward_from_list() {
    assert_eq!(Plain::from_list(&items()).unwrap().i, Inner { a: 1 });
    assert_eq!(*Boxed::from_list(&items()).unwrap().i, Inner { a: 1 });
    assert_eq!(Overridden::from_list(&items()).unwrap().i, Override::Explicit(Inner { a: 1 }));
    assert_eq!(Fallible::from_list(&items()).unwrap().i.unwrap(), Inner { a: 1 });
}

#[test]
fn flatten_through_option() {
    // fails: Err(Unexpected meta-item format `list`)
    assert_eq!(Optional::from_list(&items()).unwrap().i, Some(Inner { a: 1 }));
}

#[test]
fn flatten_through_spanned_value() {
    // fails: Err(Unexpected meta-item format `list`)
    assert_eq!(*Spanned::from_list(&items()).unwrap().i, Inner { a: 1 });
}

#[test]
fn flatten_through_result_meta() {
    // fails: Err(Unexpected meta-item format `list`)
    assert_eq!(Original::from_list(&items()).unwrap().i.unwrap(), Inner { a: 1 });
}

// ---- a literal entry of a list ---------------------------------------------------------------

fn lit() -> NestedMeta {
    NestedMeta::Lit(syn::parse_quote!("a"))
}

#[test]
fn control_literal_entry() {
    assert_eq!(String::from_nested_meta(&lit()).unwrap(), "a");
    assert_eq!(*SpannedValue::<String>::from_nested_meta(&lit()).unwrap(), "a");
    assert_eq!(Override::<String>::from_nested_meta(&lit()).unwrap(), Override::Explicit("a".to_string()));
}

#[test]
fn literal_entry_through_option() {
    // fails: Err(Unexpected type `string`)
    assert_eq!(Option::<String>::from_nested_meta(&lit()).unwrap(), Some("a".to_string()));
}

#[test]
fn literal_entry_through_smart_pointers() {
    // fails: Err(Unexpected type `string`)
    assert_eq!(*Box::<String>::from_nested_meta(&lit()).unwrap(), "a");
    assert_eq!(*Rc::<String>::from_nested_meta(&lit()).unwrap(), "a");
}

#[test]
fn darling_result_never_fails_outwardly() {
    // accepted entry: outer Ok, inner Ok
    let ok = darling::Result::<String>::from_nested_meta(&lit());
    // fails: the OUTER result is Err(Unexpected type `string`)
    assert_eq!(ok.expect("darling::Result<T> must not fail outwardly").unwrap(), "a");
}

#[test]
fn darling_result_holds_the_inner_error() {
    // rejected entry: outer Ok, inner Err
    let bad = darling::Result::<u8>::from_nested_meta(&NestedMeta::Lit(syn::parse_quote!('c')));
    // fails: the OUTER result is Err
    assert!(bad.expect("darling::Result<T> must not fail outwardly").is_err());
}

#[test]
fn control_with_original_from_meta() {
    // control: through `from_meta` every wrapper is transparent
    let m: syn::Meta = syn::parse_quote!(x = "a");
    assert_eq!(WithOriginal::<String, syn::Meta>::from_meta(&m).unwrap().parsed, "a");
}
