//! C08: a path written with a leading `::` in `attributes(...)` / `forward_attrs(...)` selects the
//! attribute *without* the leading colons and never the attribute that was actually listed.
#![allow(dead_code)]
use darling::FromDeriveInput;
use syn::parse_quote;

#[derive(Debug, FromDeriveInput)]
#[darling(attributes(::a))]
struct Receiver {
    #[darling(default)]
    x: Option<u8>,
}

#[derive(Debug, FromDeriveInput)]
#[darling(forward_attrs(::k))]
struct Forwarder {
    attrs: Vec<syn::Attribute>,
}

#[test]
fn listed_global_path_is_read() {
    let di: syn::DeriveInput = parse_quote! {
        #[::a(x = 1)]
        struct S;
    };
    assert_eq!(Receiver::from_derive_input(&di).unwrap().x, Some(1));
}

#[test]
fn unlisted_relative_path_is_not_read() {
    // `a` is not `::a`; a receiver declaring `attributes(a)` likewise ignores `#[::a(..)]`
    let di: syn::DeriveInput = parse_quote! {
        #[a(x = 1)]
        struct S;
    };
    assert_eq!(Receiver::from_derive_input(&di).unwrap().x, None);
}

#[test]
fn forwarding_uses_the_listed_path() {
    let di: syn::DeriveInput = parse_quote! {
        #[k(1)]
        #[::k(2)]
        struct S;
    };
    let r = Forwarder::from_derive_input(&di).unwrap();
    let got: Vec<String> = r
        .attrs
        .iter()
        .map(|a| quote::quote!(#a).to_string())
        .collect();
    assert_eq!(got, vec!["# [:: k (2)]"]);
}
