//! C19: a precise-capturing bound (`impl Trait + use<'a, T>`) makes the usage analysis panic
//! instead of reporting the captured parameters.
use darling::usage::{IdentSet, LifetimeSet, Purpose, UsesLifetimes, UsesTypeParams};
use syn::{parse_quote, Ident, Type};

#[test]
fn type_params_of_precise_capture() {
    let set: IdentSet = ["T", "U"]
        .iter()
        .map(|n| Ident::new(n, proc_macro2::Span::call_site()))
        .collect();
    let ty: Type = parse_quote!(impl Iterator<Item = u8> + use<T>);
    let hits: Vec<String> = ty
        .uses_type_params(&Purpose::BoundImpl.into(), &set)
        .into_iter()
        .map(|i| i.to_string())
        .collect();
    assert_eq!(hits, vec!["T"]);
}

#[test]
fn lifetimes_of_precise_capture() {
    let set: LifetimeSet = ["'a", "'b"]
        .iter()
        .map(|n| syn::Lifetime::new(n, proc_macro2::Span::call_site()))
        .collect();
    let ty: Type = parse_quote!(impl Iterator<Item = u8> + use<'a>);
    let hits: Vec<String> = ty
        .uses_lifetimes(&Purpose::BoundImpl.into(), &set)
        .into_iter()
        .map(|i| i.to_string())
        .collect();
    assert_eq!(hits, vec!["'a"]);
}

/// Even when nothing of the queried set is captured the call must return (an empty set).
#[test]
fn precise_capture_does_not_panic() {
    let set: IdentSet = ["T"]
        .iter()
        .map(|n| Ident::new(n, proc_macro2::Span::call_site()))
        .collect();
    let ty: Type = parse_quote!(impl Sized + use<>);
    assert!(ty
        .uses_type_params(&Purpose::BoundImpl.into(), &set)
        .is_empty());
}
