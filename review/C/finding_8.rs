//! C16: `FromAttributes` has no identifier to hand over, yet a receiver field called `ident` is
//! taken away as a "magic field": it is neither parsed from the attributes nor initialised.
//!
//! THIS FILE FAILS TO COMPILE on the unchanged tree:
//! error[E0063]: missing field `ident` in initializer of `Receiver`.
#![allow(dead_code)]
use darling::FromAttributes;
use syn::parse_quote;

#[derive(Debug, FromAttributes)]
#[darling(attributes(a))]
struct Receiver {
    ident: String,
    x: u8,
}

#[test]
fn field_called_ident_is_an_ordinary_field() {
    let di: syn::DeriveInput = parse_quote! {
        #[a(ident = "q", x = 1)]
        struct S;
    };
    let r = Receiver::from_attributes(&di.attrs).unwrap();
    assert_eq!(r.ident, "q");
    assert_eq!(r.x, 1);
}
