//! C08: an attribute path that is listed both in `attributes(...)` and in `forward_attrs(...)`
//! is parsed but never handed to the `attrs` field.
#![allow(dead_code)]
use darling::{FromDeriveInput, FromField};
use syn::parse_quote;

#[derive(Debug, FromDeriveInput)]
#[darling(attributes(a), forward_attrs(a, b))]
struct Receiver {
    #[darling(default)]
    x: Option<u8>,
    attrs: Vec<syn::Attribute>,
}

#[derive(Debug, FromField)]
#[darling(attributes(a), forward_attrs(a, b))]
struct FieldReceiver {
    #[darling(default)]
    x: Option<u8>,
    attrs: Vec<syn::Attribute>,
}

fn print(attrs: &[syn::Attribute]) -> Vec<String> {
    attrs
        .iter()
        .map(|a| quote::quote!(#a).to_string())
        .collect()
}

#[test]
fn attribute_listed_in_both_is_forwarded() {
    let di: syn::DeriveInput = parse_quote! {
        #[a(x = 1)]
        #[b(zzz)]
        #[c]
        #[a]
        struct S;
    };
    let r = Receiver::from_derive_input(&di).unwrap();
    assert_eq!(r.x, Some(1));
    // forward_attrs(a, b) selects the two `a` attributes and the `b` attribute, in source order
    assert_eq!(
        print(&r.attrs),
        vec!["# [a (x = 1)]", "# [b (zzz)]", "# [a]"]
    );
}

#[test]
fn attribute_listed_in_both_is_forwarded_field() {
    let di: syn::DeriveInput = parse_quote! {
        struct S {
            #[a(x = 1)]
            #[b(zzz)]
            f: u8,
        }
    };
    let f = match &di.data {
        syn::Data::Struct(s) => s.fields.iter().next().unwrap(),
        _ => unreachable!(),
    };
    let r = FieldReceiver::from_field(f).unwrap();
    assert_eq!(r.x, Some(1));
    assert_eq!(print(&r.attrs), vec!["# [a (x = 1)]", "# [b (zzz)]"]);
}
