//! C19: generic arguments written on an associated-type binding / constraint
//! (`Trait<Gat<T> = X>`, `Trait<Gat<'a>: Bound>`) are not visited by the usage analysis.
use darling::usage::{IdentSet, LifetimeSet, Purpose, UsesLifetimes, UsesTypeParams};
use syn::{parse_quote, Ident, Type, WherePredicate};

fn idents(names: &[&str]) -> IdentSet {
    names
        .iter()
        .map(|n| Ident::new(n, proc_macro2::Span::call_site()))
        .collect()
}

fn lifetimes(names: &[&str]) -> LifetimeSet {
    names
        .iter()
        .map(|n| syn::Lifetime::new(n, proc_macro2::Span::call_site()))
        .collect()
}

fn tp<U: UsesTypeParams>(node: &U, set: &IdentSet) -> Vec<String> {
    let mut v: Vec<String> = node
        .uses_type_params(&Purpose::BoundImpl.into(), set)
        .into_iter()
        .map(|i| i.to_string())
        .collect();
    v.sort();
    v
}

fn lt<U: UsesLifetimes>(node: &U, set: &LifetimeSet) -> Vec<String> {
    let mut v: Vec<String> = node
        .uses_lifetimes(&Purpose::BoundImpl.into(), set)
        .into_iter()
        .map(|i| i.to_string())
        .collect();
    v.sort();
    v
}

/// Legal, stable Rust: `where X: Tr<Gat<T> = u32>`.
#[test]
fn type_param_in_assoc_type_generics_of_where_predicate() {
    let set = idents(&["T", "U"]);
    let pred: WherePredicate = parse_quote!(X: Tr<Gat<T> = u32>);
    assert_eq!(tp(&pred, &set), vec!["T"]);
}

#[test]
fn type_param_in_assoc_type_generics_of_type() {
    let set = idents(&["T", "U"]);
    let ty: Type = parse_quote!(Box<dyn Tr<Gat<T> = u32>>);
    assert_eq!(tp(&ty, &set), vec!["T"]);
    // sanity: the right-hand side of the binding *is* visited
    let ty: Type = parse_quote!(Box<dyn Tr<Gat<u8> = U>>);
    assert_eq!(tp(&ty, &set), vec!["U"]);
}

#[test]
fn type_param_in_constraint_generics() {
    let set = idents(&["T", "U"]);
    let ty: Type = parse_quote!(Box<dyn Tr<Gat<T>: Clone>>);
    assert_eq!(tp(&ty, &set), vec!["T"]);
}

#[test]
fn lifetime_in_assoc_type_generics() {
    let set = lifetimes(&["'a", "'b"]);
    let ty: Type = parse_quote!(Box<dyn Tr<Gat<'a> = u32>>);
    assert_eq!(lt(&ty, &set), vec!["'a"]);
    let pred: WherePredicate = parse_quote!(X: Tr<Gat<'b>: Clone>);
    assert_eq!(lt(&pred, &set), vec!["'b"]);
}
