//! C19: `#[darling(skip)]` on the single field of a newtype struct / newtype variant removes the
//! `FromMeta` bound from the emitted impl, but the generated body still parses that field through
//! `FromMeta::from_meta` / `FromMeta::from_none`.
//!
//! THIS FILE FAILS TO COMPILE on the unchanged tree (that is the defect):
//! error[E0277]: the trait bound `T: FromMeta` is not satisfied
//! inside the impls generated for `NewtypeStruct<T>` and `NewtypeVariant<T>`.
#![allow(dead_code)]
use darling::FromMeta;
use syn::parse_quote;

#[derive(Debug, PartialEq, FromMeta)]
struct NewtypeStruct<T>(#[darling(skip)] T);

#[derive(Debug, PartialEq, FromMeta)]
enum NewtypeVariant<T> {
    A(#[darling(skip)] T),
    B,
}

#[test]
fn generated_impls_compile() {
    // Whatever the derive decides to do with the skipped field, the bound it emits has to agree
    // with the body it emits. `String` is both `FromMeta` and `Default`.
    let v = NewtypeVariant::<String>::from_meta(&parse_quote!(x = "b")).unwrap();
    assert_eq!(v, NewtypeVariant::B);
    let _ = NewtypeStruct::<String>::from_meta(&parse_quote!(x = "v"));
}
