//! C19: a newtype receiver deriving `FromDeriveInput` / `FromAttributes` delegates to the inner
//! type's `FromDeriveInput` / `FromAttributes` impl, but the emitted impl bounds the type
//! parameter by `FromMeta`.
//!
//! THIS FILE FAILS TO COMPILE on the unchanged tree (that is the defect):
//!   * `Plain<T>` / `PlainAttrs<T>`: E0277 `T: FromDeriveInput` / `T: FromAttributes` not satisfied
//!     inside the generated impl;
//!   * `Bounded<T>` / `BoundedAttrs<T>`: the impl compiles, but carries the spurious extra bound
//!     `T: FromMeta`, so it is unusable with an inner receiver (E0599 in the tests).
#![allow(dead_code)]
use darling::{FromAttributes, FromDeriveInput};
use syn::parse_quote;

#[derive(Debug, FromDeriveInput)]
#[darling(attributes(a))]
struct Inner {
    ident: syn::Ident,
    #[darling(default)]
    x: Option<u8>,
}

#[derive(Debug, FromAttributes)]
#[darling(attributes(a))]
struct InnerAttrs {
    #[darling(default)]
    x: Option<u8>,
}

#[derive(Debug, FromDeriveInput)]
struct Plain<T>(T);

#[derive(Debug, FromAttributes)]
struct PlainAttrs<T>(T);

#[derive(Debug, FromDeriveInput)]
struct Bounded<T>(T)
where
    T: FromDeriveInput;

#[derive(Debug, FromAttributes)]
struct BoundedAttrs<T>(T)
where
    T: FromAttributes;

#[test]
fn newtype_from_derive_input_over_type_param() {
    let di: syn::DeriveInput = parse_quote! {
        #[a(x = 1)]
        struct S;
    };
    assert_eq!(Plain::<Inner>::from_derive_input(&di).unwrap().0.x, Some(1));
    assert_eq!(Bounded::<Inner>::from_derive_input(&di).unwrap().0.x, Some(1));
}

#[test]
fn newtype_from_attributes_over_type_param() {
    let di: syn::DeriveInput = parse_quote! {
        #[a(x = 1)]
        struct S;
    };
    assert_eq!(
        PlainAttrs::<InnerAttrs>::from_attributes(&di.attrs).unwrap().0.x,
        Some(1)
    );
    assert_eq!(
        BoundedAttrs::<InnerAttrs>::from_attributes(&di.attrs).unwrap().0.x,
        Some(1)
    );
}
