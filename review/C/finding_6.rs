//! C08: a second `attributes(...)` (or `forward_attrs(...)`) declaration silently replaces the
//! first one instead of adding to it or being rejected.
#![allow(dead_code)]
use darling::FromDeriveInput;
use syn::parse_quote;

#[derive(Debug, FromDeriveInput)]
#[darling(attributes(a))]
#[darling(attributes(b))]
struct TwoAttributeDecls {
    #[darling(default)]
    x: Option<u8>,
    #[darling(default)]
    y: Option<u8>,
}

#[derive(Debug, FromDeriveInput)]
#[darling(forward_attrs(a), forward_attrs(b))]
struct TwoForwardDecls {
    attrs: Vec<syn::Attribute>,
}

#[test]
fn both_attribute_declarations_are_read() {
    let di: syn::DeriveInput = parse_quote! {
        #[a(x = 1)]
        #[b(y = 2)]
        struct S;
    };
    let r = TwoAttributeDecls::from_derive_input(&di).unwrap();
    // `a` is listed in an `attributes(...)` declaration of the receiver, so it must be read
    assert_eq!((r.x, r.y), (Some(1), Some(2)));
}

#[test]
fn both_forward_declarations_are_honoured() {
    let di: syn::DeriveInput = parse_quote! {
        #[a(x = 1)]
        #[b(y = 2)]
        struct S;
    };
    let r = TwoForwardDecls::from_derive_input(&di).unwrap();
    assert_eq!(r.attrs.len(), 2);
}
