//! finding_2: `FromField`, `FromVariant` and `FromTypeParam` accept a newtype receiver and emit code that
//! initialises a field called `__unnamed`.
//!
//! THIS FILE DOES NOT COMPILE on the unchanged tree; that is the defect (property C20).
#![allow(dead_code)]

use darling::{FromField, FromTypeParam, FromVariant};
use syn::parse_quote;

#[derive(Debug, FromField)]
#[darling(attributes(a))]
struct FieldInner {
    ident: Option<syn::Ident>,
    #[darling(default)]
    k: u32,
}

/// Newtype receivers are accepted by `FromMeta`, `FromDeriveInput` and `FromAttributes`, where they delegate
/// to the wrapped type.  The derive accepts this declaration as well ...
#[derive(Debug, FromField)]
struct FieldWrapper(FieldInner);

#[derive(Debug, FromVariant)]
#[darling(attributes(a))]
struct VariantInner {
    ident: syn::Ident,
}

#[derive(Debug, FromVariant)]
struct VariantWrapper(VariantInner);

#[derive(Debug, FromTypeParam)]
#[darling(attributes(a))]
struct ParamInner {
    ident: syn::Ident,
}

#[derive(Debug, FromTypeParam)]
struct ParamWrapper(ParamInner);

#[test]
fn newtype_from_field_delegates() {
    let di: syn::DeriveInput = parse_quote!(struct Foo { #[a(k = 3)] x: u8 });
    let field = match &di.data {
        syn::Data::Struct(s) => s.fields.iter().next().unwrap().clone(),
        _ => unreachable!(),
    };
    let w = FieldWrapper::from_field(&field).unwrap();
    assert_eq!(w.0.k, 3);
    assert_eq!(w.0.ident.unwrap(), "x");
}

#[test]
fn newtype_from_variant_delegates() {
    let di: syn::DeriveInput = parse_quote!(enum Foo { Bar });
    let variant = match &di.data {
        syn::Data::Enum(e) => e.variants[0].clone(),
        _ => unreachable!(),
    };
    assert_eq!(VariantWrapper::from_variant(&variant).unwrap().0.ident, "Bar");
}

#[test]
fn newtype_from_type_param_delegates() {
    let di: syn::DeriveInput = parse_quote!(struct Foo<T>(T););
    let tp = di.generics.type_params().next().unwrap().clone();
    assert_eq!(ParamWrapper::from_type_param(&tp).unwrap().0.ident, "T");
}
