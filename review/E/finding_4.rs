//! finding_4: a generic newtype receiver of `FromDeriveInput` / `FromAttributes` gets the bound
//! `T: FromMeta` although the emitted body calls `T::from_derive_input` / `T::from_attributes`.
//!
//! THIS FILE DOES NOT COMPILE on the unchanged tree; that is the defect (property C20).
#![allow(dead_code)]

use darling::{FromAttributes, FromDeriveInput, FromMeta};
use syn::parse_quote;

#[derive(Debug, FromDeriveInput)]
struct Named {
    ident: syn::Ident,
}

#[derive(Debug, FromAttributes)]
#[darling(attributes(a))]
struct Attrs {
    #[darling(default)]
    k: u32,
}

// The same shape works for FromMeta: the type parameter receives the bound of the trait that the
// body delegates to.
#[derive(Debug, FromMeta)]
struct MetaWrapper<T>(T);

// (1) No bound written by the user: the impl itself does not type-check
//     (`T: FromDeriveInput` is not satisfied inside the generated body).
#[derive(Debug, FromDeriveInput)]
struct InputWrapper<T>(T);

#[derive(Debug, FromAttributes)]
struct AttrsWrapper<T>(T);

// (2) Bound written by the user: the impl type-checks but additionally demands `T: FromMeta`,
//     so it cannot be used with any element-level receiver.
#[derive(Debug, FromDeriveInput)]
struct BoundedInputWrapper<T: FromDeriveInput>(T);

#[test]
fn meta_newtype_is_generic() {
    let m: syn::Meta = parse_quote!(x = 3);
    assert_eq!(MetaWrapper::<u32>::from_meta(&m).unwrap().0, 3);
}

#[test]
fn derive_input_newtype_is_generic() {
    let di: syn::DeriveInput = parse_quote!(#[a(k = 2)] struct Foo;);
    assert_eq!(InputWrapper::<Named>::from_derive_input(&di).unwrap().0.ident, "Foo");
    assert_eq!(BoundedInputWrapper::<Named>::from_derive_input(&di).unwrap().0.ident, "Foo");
    assert_eq!(AttrsWrapper::<Attrs>::from_attributes(&di.attrs).unwrap().0.k, 2);
}
