//! finding_1: generated locals named after the receiver's fields shadow the user's callables.
//!
//! THIS FILE DOES NOT COMPILE on the unchanged tree; that is the defect (property C20).
//! Every receiver below is accepted by the derive and every field type implements `FromMeta`.
//! Each function named by `default` / `with` / `map` / `and_then` (field or container level) is an
//! ordinary free function whose name happens to equal the name of a field of the receiver.
#![allow(dead_code)]

use darling::{FromDeriveInput, FromMeta};
use syn::parse_quote;

// --- field-level `default = "..."` -------------------------------------------------------------
fn answer() -> u32 {
    42
}

#[derive(Debug, FromMeta)]
struct FieldDefault {
    #[darling(default = "answer")]
    answer: u32,
}

// --- the name of *another* field is enough ------------------------------------------------------
fn other() -> u32 {
    7
}

#[derive(Debug, FromMeta)]
struct OtherField {
    #[darling(default = "other")]
    first: u32,
    #[darling(default)]
    other: u32,
}

// --- field-level `with = ...` -------------------------------------------------------------------
fn count(m: &syn::Meta) -> darling::Result<u32> {
    u32::from_meta(m)
}

#[derive(Debug, FromMeta)]
struct FieldWith {
    #[darling(with = count)]
    count: u32,
}

// --- field-level `map = "..."` ------------------------------------------------------------------
fn twice(v: u32) -> u32 {
    v * 2
}

#[derive(Debug, FromMeta)]
struct FieldMap {
    #[darling(map = "twice")]
    twice: u32,
}

// --- container-level `default = "..."` ----------------------------------------------------------
fn base() -> ContainerDefault {
    ContainerDefault { base: 7 }
}

#[derive(Debug, FromMeta)]
#[darling(default = "base")]
struct ContainerDefault {
    base: u32,
}

// --- struct variant of an enum ------------------------------------------------------------------
fn level() -> u32 {
    1
}

#[derive(Debug, FromMeta)]
enum InVariant {
    Fast {
        #[darling(default = "level")]
        level: u32,
    },
}

// --- `with` of the magic `attrs` field ----------------------------------------------------------
fn attrs(v: Vec<syn::Attribute>) -> darling::Result<usize> {
    Ok(v.len())
}

#[derive(Debug, FromDeriveInput)]
#[darling(forward_attrs(doc))]
struct AttrsWith {
    #[darling(with = "attrs")]
    attrs: usize,
}

#[test]
fn field_default() {
    let m: syn::Meta = parse_quote!(x());
    assert_eq!(FieldDefault::from_meta(&m).unwrap().answer, 42);
    assert_eq!(OtherField::from_meta(&m).unwrap().first, 7);
}

#[test]
fn field_with_and_map() {
    let m: syn::Meta = parse_quote!(x(count = 3));
    assert_eq!(FieldWith::from_meta(&m).unwrap().count, 3);
    let m: syn::Meta = parse_quote!(x(twice = 3));
    assert_eq!(FieldMap::from_meta(&m).unwrap().twice, 6);
}

#[test]
fn container_default() {
    let m: syn::Meta = parse_quote!(x());
    assert_eq!(ContainerDefault::from_meta(&m).unwrap().base, 7);
}

#[test]
fn struct_variant() {
    let m: syn::Meta = parse_quote!(x(fast()));
    match InVariant::from_meta(&m).unwrap() {
        InVariant::Fast { level } => assert_eq!(level, 1),
    }
}

#[test]
fn forwarded_attrs() {
    let di: syn::DeriveInput = parse_quote!(#[doc = "x"] struct Foo;);
    assert_eq!(AttrsWith::from_derive_input(&di).unwrap().attrs, 1);
}
