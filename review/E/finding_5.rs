//! finding_5: a `FromAttributes` receiver with an ordinary field called `ident` is accepted, the field is
//! silently treated as the magic `ident` field (which `FromAttributes` cannot fill) and the emitted
//! struct literal omits it.
//!
//! THIS FILE DOES NOT COMPILE on the unchanged tree; that is the defect (property C20).
#![allow(dead_code)]

use darling::FromAttributes;
use syn::parse_quote;

#[derive(Debug, FromAttributes)]
#[darling(attributes(column))]
struct Column {
    /// `#[column(ident = "...")]`: an ordinary meta field; `FromAttributes` has no syntax element that
    /// could provide a magic identifier.
    ident: String,
    #[darling(default)]
    nullable: bool,
}

#[test]
fn ident_is_an_ordinary_field_for_from_attributes() {
    let di: syn::DeriveInput = parse_quote!(#[column(ident = "id", nullable)] struct Foo;);
    let c = Column::from_attributes(&di.attrs).unwrap();
    assert_eq!(c.ident, "id");
    assert!(c.nullable);
}
