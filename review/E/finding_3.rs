//! finding_3: `#[darling(default)]` on an enum that has a struct variant emits a reference to a
//! `__default` local that is never declared.
//!
//! THIS FILE DOES NOT COMPILE on the unchanged tree; that is the defect (property C20).
#![allow(dead_code)]

use darling::FromMeta;
use syn::parse_quote;

#[derive(Debug, Default, PartialEq, FromMeta)]
#[darling(default)]
enum Mode {
    #[default]
    Off,
    Level {
        amount: u32,
    },
}

fn fallback() -> WithPath {
    WithPath::Plain
}

#[derive(Debug, PartialEq, FromMeta)]
#[darling(default = "fallback")]
enum WithPath {
    Plain,
    Tagged { tag: String },
}

#[test]
fn enum_default_with_struct_variant_compiles() {
    let m: syn::Meta = parse_quote!(x(level(amount = 3)));
    assert_eq!(Mode::from_meta(&m).unwrap(), Mode::Level { amount: 3 });
    let m: syn::Meta = parse_quote!(x(tagged(tag = "t")));
    assert_eq!(WithPath::from_meta(&m).unwrap(), WithPath::Tagged { tag: "t".into() });
    let m: syn::Meta = parse_quote!(x = "off");
    assert_eq!(Mode::from_meta(&m).unwrap(), Mode::Off);
}
