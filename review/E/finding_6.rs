//! finding_6: the emitted impls call prelude *trait methods* (`Clone::clone`, `Into::into`,
//! `AsRef::as_ref`, `IntoIterator::into_iter`, `Iterator::collect`) with method syntax, i.e. they depend on the
//! receiver module's implicit prelude instead of darling's re-exports.
//!
//! THIS FILE DOES NOT COMPILE on the unchanged tree; that is the defect (property C20).
#![allow(dead_code)]

/// Control: a plain struct receiver is already self-contained and compiles here.
mod plain_struct {
    #![no_implicit_prelude]

    #[derive(::darling::FromMeta)]
    pub struct S {
        pub a: u32,
    }
}

mod enum_receiver {
    #![no_implicit_prelude]

    // `.as_ref()` on the variant name, `.clone()` on the struct variant's token stream
    #[derive(::darling::FromMeta)]
    pub enum E {
        A,
        B(u32),
        C { x: u32 },
    }
}

mod flatten_receiver {
    #![no_implicit_prelude]

    #[derive(::darling::FromMeta)]
    pub struct Inner {
        #[darling(default)]
        pub q: u8,
    }

    // `__inner.clone()` when buffering the items of the flatten field
    #[derive(::darling::FromMeta)]
    pub struct Outer {
        pub a: u32,
        #[darling(flatten)]
        pub inner: Inner,
    }
}

mod derive_input_receiver {
    #![no_implicit_prelude]

    // `__err.into()`, `__di.ident.clone()`, `__attr.clone()`
    #[derive(::darling::FromDeriveInput)]
    #[darling(attributes(a), forward_attrs(doc))]
    pub struct D {
        pub ident: ::syn::Ident,
        pub attrs: ::std::vec::Vec<::syn::Attribute>,
        pub a: u32,
    }
}

mod type_param_receiver {
    #![no_implicit_prelude]

    // `.bounds.clone().into_iter().collect()`
    #[derive(::darling::FromTypeParam)]
    #[darling(attributes(a))]
    pub struct P {
        pub ident: ::syn::Ident,
        pub bounds: ::std::vec::Vec<::syn::TypeParamBound>,
    }
}

#[test]
fn receivers_in_prelude_free_modules_work() {
    use darling::{FromDeriveInput, FromMeta};
    let m: syn::Meta = syn::parse_quote!(x(c(x = 1)));
    assert!(matches!(enum_receiver::E::from_meta(&m), Ok(enum_receiver::E::C { x: 1 })));
    let di: syn::DeriveInput = syn::parse_quote!(#[a(a = 1)] #[doc = "d"] struct Foo;);
    let d = derive_input_receiver::D::from_derive_input(&di).unwrap();
    assert_eq!(d.attrs.len(), 1);
    assert_eq!(d.a, 1);
}
