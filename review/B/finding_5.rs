//! C06: the derives panic on a syntactically valid item whose field type contains a
//! `use<..>` precise-capturing bound (`syn::TypeParamBound::PreciseCapture`).
//!
//! Through the real macro this surfaces as `error: proc-macro derive panicked`, e.g. for
//!     #[derive(darling::FromMeta)]
//!     struct S<T> { a: Vec<T>, b: fn(impl Sized + use<T>) }
use darling_core::derive;
use proc_macro2::TokenStream;
use std::panic;
use syn::{parse_quote, DeriveInput};

fn survives(f: fn(&DeriveInput) -> TokenStream, di: &DeriveInput) -> bool {
    let di = di.clone();
    match panic::catch_unwind(move || f(&di)) {
        // Must be an implementation or diagnostics, not nothing.
        Ok(tokens) => !tokens.is_empty(),
        Err(_) => false,
    }
}

fn generic_struct() -> DeriveInput {
    parse_quote! {
        #[darling(attributes(a))]
        struct S<T> { a: Vec<T>, b: fn(impl Sized + use<T>) }
    }
}

#[test]
fn from_meta_struct() {
    let di: DeriveInput = parse_quote! { struct S<T> { a: Vec<T>, b: fn(impl Sized + use<T>) } };
    assert!(survives(derive::from_meta, &di));
}

#[test]
fn from_meta_without_generics() {
    let di: DeriveInput = parse_quote! { struct S { b: fn(impl Sized + use<>) } };
    assert!(survives(derive::from_meta, &di));
}

#[test]
fn from_meta_enum() {
    let di: DeriveInput = parse_quote! { enum E<T> { A(impl Sized + use<T>), B { x: impl Sized + use<T> } } };
    assert!(survives(derive::from_meta, &di));
}

#[test]
fn from_derive_input() {
    assert!(survives(derive::from_derive_input, &generic_struct()));
}

#[test]
fn from_field() {
    assert!(survives(derive::from_field, &generic_struct()));
}

#[test]
fn from_variant() {
    assert!(survives(derive::from_variant, &generic_struct()));
}

#[test]
fn from_type_param() {
    assert!(survives(derive::from_type_param, &generic_struct()));
}

#[test]
fn from_attributes() {
    assert!(survives(derive::from_attributes, &generic_struct()));
}
