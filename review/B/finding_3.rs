//! C18: a newtype receiver deriving `FromDeriveInput` ignores its own `supports(...)`.
use darling::FromDeriveInput;
use syn::parse_quote;

#[derive(FromDeriveInput)]
#[darling(supports(any))]
struct Inner {}

/// Declares that only enums with unit variants are acceptable.
#[derive(FromDeriveInput)]
#[darling(supports(enum_unit))]
struct Wrapper(Inner);

/// Control: the same declaration on a receiver with named fields.
#[derive(FromDeriveInput)]
#[darling(supports(enum_unit))]
struct Named {}

#[test]
fn control_named_receiver_rejects_struct() {
    let di: syn::DeriveInput = parse_quote!(struct S { a: u8 });
    assert!(Named::from_derive_input(&di).is_err());
}

#[test]
fn newtype_receiver_rejects_struct() {
    let di: syn::DeriveInput = parse_quote!(struct S { a: u8 });
    assert!(
        Wrapper::from_derive_input(&di).is_err(),
        "`supports(enum_unit)` receiver accepted a struct with named fields"
    );
}

#[test]
fn newtype_receiver_rejects_enum_with_data_variants_once_per_variant() {
    let di: syn::DeriveInput = parse_quote!(enum E { A, B(u8), C { x: u8 } });
    let err = Wrapper::from_derive_input(&di).map(|_| ()).unwrap_err();
    assert_eq!(err.len(), 2);
}

#[test]
fn newtype_receiver_rejects_union() {
    let di: syn::DeriveInput = parse_quote!(union U { a: u8 });
    assert!(Wrapper::from_derive_input(&di).is_err());
}
