//! C10: `word = false` does not designate a word variant, so declarations using it are
//! well-formed and must produce an implementation. The validation counts every variant on
//! which the `word` option was *written*, whatever its value.
use darling_core::derive;
use proc_macro2::TokenStream;
use syn::{parse_quote, DeriveInput};

/// (number of impl blocks, number of top-level compile_error! invocations) in a derive's output.
fn outcome(out: TokenStream) -> (usize, usize) {
    let file: syn::File = syn::parse2(out).expect("derive output is a sequence of items");
    let mut impls = 0;
    let mut errors = 0;
    for item in &file.items {
        match item {
            syn::Item::Impl(_) => impls += 1,
            syn::Item::Macro(m)
                if m.mac.path.segments.last().map(|s| s.ident == "compile_error").unwrap_or(false) =>
            {
                errors += 1
            }
            other => panic!("unexpected item in derive output: {:?}", other),
        }
    }
    (impls, errors)
}

#[test]
fn two_variants_with_word_false() {
    let di: DeriveInput = parse_quote! {
        enum E { #[darling(word = false)] A, #[darling(word = false)] B }
    };
    assert_eq!(outcome(derive::from_meta(&di)), (1, 0));
}

#[test]
fn one_word_variant_and_one_word_false() {
    let di: DeriveInput = parse_quote! {
        enum E { #[darling(word)] A, #[darling(word = false)] B }
    };
    assert_eq!(outcome(derive::from_meta(&di)), (1, 0));
}

#[test]
fn from_word_with_word_false() {
    let di: DeriveInput = parse_quote! {
        #[darling(from_word = make)]
        enum E { #[darling(word = false)] A, B }
    };
    assert_eq!(outcome(derive::from_meta(&di)), (1, 0));
}

/// Control: the same shape of check for `skip = false` / `multiple = false` next to `flatten`
/// looks at the value, and is accepted.
#[test]
fn control_skip_false_with_flatten_is_accepted() {
    let di: DeriveInput = parse_quote! {
        struct S { #[darling(flatten, skip = false, multiple = false)] a: A }
    };
    assert_eq!(outcome(derive::from_meta(&di)), (1, 0));
}
