//! C10: more than one `flatten` field must be rejected; in a struct variant of a derived
//! `FromMeta` enum it is accepted.
use darling_core::derive;
use proc_macro2::TokenStream;
use syn::{parse_quote, DeriveInput};

/// (number of impl blocks, number of top-level compile_error! invocations) in a derive's output.
fn outcome(out: TokenStream) -> (usize, usize) {
    let file: syn::File = syn::parse2(out).expect("derive output is a sequence of items");
    let mut impls = 0;
    let mut errors = 0;
    for item in &file.items {
        match item {
            syn::Item::Impl(_) => impls += 1,
            syn::Item::Macro(m)
                if m.mac.path.segments.last().map(|s| s.ident == "compile_error").unwrap_or(false) =>
            {
                errors += 1
            }
            other => panic!("unexpected item in derive output: {:?}", other),
        }
    }
    (impls, errors)
}

/// Reference behaviour: the struct receiver is rejected, one error per flatten keyword.
#[test]
fn two_flatten_fields_in_a_struct_are_rejected() {
    let di: DeriveInput = parse_quote! {
        struct S { #[darling(flatten)] a: A, #[darling(flatten)] b: B }
    };
    assert_eq!(outcome(derive::from_meta(&di)), (0, 2));
}

/// The same body as a struct variant: must be rejected in the same way.
#[test]
fn two_flatten_fields_in_a_struct_variant_are_rejected() {
    let di: DeriveInput = parse_quote! {
        enum E { V { #[darling(flatten)] a: A, #[darling(flatten)] b: B } }
    };
    let (impls, errors) = outcome(derive::from_meta(&di));
    assert_eq!(impls, 0, "an implementation was emitted for a variant with two flatten fields");
    assert_eq!(errors, 2);
}

/// Also across attributes and with further, ordinary fields.
#[test]
fn two_flatten_fields_in_a_struct_variant_with_other_fields() {
    let di: DeriveInput = parse_quote! {
        enum E {
            Unit,
            V { x: u8, #[darling(flatten)] a: A, #[darling(default)] #[darling(flatten)] b: B },
        }
    };
    let (impls, errors) = outcome(derive::from_meta(&di));
    assert_eq!(impls, 0);
    assert!(errors >= 1);
}
