//! C10: a receiver that uses an unknown option must be rejected. The `#[darling(...)]`
//! attributes of the magic fields `ident`, `vis`, `generics`, `ty`, `bounds`, `default`,
//! `discriminant` and `fields` are never read, so any option on them - unknown, malformed or
//! conflicting - is silently accepted.
use darling_core::derive;
use proc_macro2::TokenStream;
use syn::{parse_quote, DeriveInput};

/// (number of impl blocks, number of top-level compile_error! invocations) in a derive's output.
fn outcome(out: TokenStream) -> (usize, usize) {
    let file: syn::File = syn::parse2(out).expect("derive output is a sequence of items");
    let mut impls = 0;
    let mut errors = 0;
    for item in &file.items {
        match item {
            syn::Item::Impl(_) => impls += 1,
            syn::Item::Macro(m)
                if m.mac.path.segments.last().map(|s| s.ident == "compile_error").unwrap_or(false) =>
            {
                errors += 1
            }
            other => panic!("unexpected item in derive output: {:?}", other),
        }
    }
    (impls, errors)
}

/// Control: the same attribute on an ordinary field, and on the magic `attrs` field.
#[test]
fn control_ordinary_and_attrs_fields() {
    let di: DeriveInput = parse_quote! {
        struct R { #[darling(no_such_option)] a: u8 }
    };
    assert_eq!(outcome(derive::from_derive_input(&di)), (0, 1));
    let di: DeriveInput = parse_quote! {
        #[darling(forward_attrs)]
        struct R { #[darling(no_such_option)] attrs: Vec<syn::Attribute> }
    };
    assert_eq!(outcome(derive::from_derive_input(&di)), (0, 1));
}

#[test]
fn from_derive_input_magic_fields() {
    let di: DeriveInput = parse_quote! {
        struct R {
            #[darling(no_such_option)] ident: syn::Ident,
            #[darling(no_such_option)] vis: syn::Visibility,
            #[darling(no_such_option)] generics: syn::Generics,
        }
    };
    assert_eq!(outcome(derive::from_derive_input(&di)), (0, 3));
}

#[test]
fn from_field_magic_fields() {
    let di: DeriveInput = parse_quote! {
        struct R {
            #[darling(no_such_option)] ident: Option<syn::Ident>,
            #[darling(no_such_option)] vis: syn::Visibility,
            #[darling(no_such_option)] ty: syn::Type,
        }
    };
    assert_eq!(outcome(derive::from_field(&di)), (0, 3));
}

#[test]
fn from_variant_magic_fields() {
    let di: DeriveInput = parse_quote! {
        struct R {
            #[darling(no_such_option)] ident: syn::Ident,
            #[darling(no_such_option)] discriminant: Option<syn::Expr>,
            #[darling(no_such_option)] fields: darling::ast::Fields<syn::Type>,
        }
    };
    assert_eq!(outcome(derive::from_variant(&di)), (0, 3));
}

#[test]
fn from_type_param_magic_fields() {
    let di: DeriveInput = parse_quote! {
        struct R {
            #[darling(no_such_option)] ident: syn::Ident,
            #[darling(no_such_option)] bounds: Vec<syn::TypeParamBound>,
            #[darling(no_such_option)] default: Option<syn::Type>,
        }
    };
    assert_eq!(outcome(derive::from_type_param(&di)), (0, 3));
}

/// Not only unknown names: literals, conflicts and repetitions go unnoticed as well.
#[test]
fn conflicting_options_on_a_magic_field() {
    let di: DeriveInput = parse_quote! {
        struct R {
            #[darling(flatten, rename = "x", skip, map = f, and_then = g, flatten, "literal")]
            ident: syn::Ident,
        }
    };
    let (impls, errors) = outcome(derive::from_derive_input(&di));
    assert_eq!(impls, 0);
    assert!(errors >= 1);
}
