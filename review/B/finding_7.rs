//! C10: a body the trait cannot represent must be diagnosed instead of producing an
//! implementation. `FromField`, `FromVariant` and `FromTypeParam` have no code path for a
//! newtype receiver (unlike `FromMeta`, `FromDeriveInput` and `FromAttributes`, which delegate
//! to the inner type): the emitted impl builds `Self { __unnamed: .. }` from a local named after
//! the placeholder identifier, which can never compile:
//!
//!     #[derive(darling::FromField)]
//!     struct Wrapper(Inner);      // error[E0560]: struct `Wrapper` has no field named `__unnamed`
use darling_core::derive;
use proc_macro2::TokenStream;
use syn::{parse_quote, DeriveInput};

fn newtype() -> DeriveInput {
    parse_quote! {
        #[darling(attributes(a))]
        struct Wrapper(Inner);
    }
}

/// Either diagnostics only, or an implementation that does not name the placeholder field.
fn acceptable(out: TokenStream) -> bool {
    let text = out.to_string();
    let diagnostics = text.contains("compile_error");
    let has_impl = text.contains("impl ");
    (diagnostics && !has_impl) || (has_impl && !diagnostics && !text.contains("__unnamed"))
}

/// Control: the traits that support newtype receivers.
#[test]
fn control_delegating_traits() {
    assert!(acceptable(derive::from_meta(&parse_quote!(struct Wrapper(Inner);))));
    assert!(acceptable(derive::from_derive_input(&newtype())));
    assert!(acceptable(derive::from_attributes(&newtype())));
}

#[test]
fn from_field_newtype() {
    assert!(acceptable(derive::from_field(&newtype())));
}

#[test]
fn from_variant_newtype() {
    assert!(acceptable(derive::from_variant(&newtype())));
}

#[test]
fn from_type_param_newtype() {
    assert!(acceptable(derive::from_type_param(&newtype())));
}
