//! C10: all violated rules among the fields of one struct-like body are to be reported. For a
//! struct receiver they are; for the fields of a struct (or tuple) variant of a `FromMeta` enum
//! validation stops at the first offending field, and an offending field also suppresses the
//! unsupported-tuple-shape error of the variant.
use darling_core::derive;
use proc_macro2::TokenStream;
use syn::{parse_quote, DeriveInput};

/// (number of impl blocks, number of top-level compile_error! invocations) in a derive's output.
fn outcome(out: TokenStream) -> (usize, usize) {
    let file: syn::File = syn::parse2(out).expect("derive output is a sequence of items");
    let mut impls = 0;
    let mut errors = 0;
    for item in &file.items {
        match item {
            syn::Item::Impl(_) => impls += 1,
            syn::Item::Macro(m)
                if m.mac.path.segments.last().map(|s| s.ident == "compile_error").unwrap_or(false) =>
            {
                errors += 1
            }
            other => panic!("unexpected item in derive output: {:?}", other),
        }
    }
    (impls, errors)
}

#[test]
fn control_struct_reports_every_field() {
    let di: DeriveInput = parse_quote! {
        struct S { #[darling(bogus1)] a: u8, #[darling(skip, flatten)] b: u8, #[darling(map = f, and_then = g)] c: u8 }
    };
    assert_eq!(outcome(derive::from_meta(&di)), (0, 3));
}

#[test]
fn struct_variant_reports_every_field() {
    let di: DeriveInput = parse_quote! {
        enum E { V { #[darling(bogus1)] a: u8, #[darling(skip, flatten)] b: u8, #[darling(map = f, and_then = g)] c: u8 } }
    };
    assert_eq!(outcome(derive::from_meta(&di)), (0, 3));
}

#[test]
fn control_tuple_struct_reports_field_and_shape() {
    let di: DeriveInput = parse_quote! { struct S(#[darling(bogus)] u8, u8); };
    assert_eq!(outcome(derive::from_meta(&di)), (0, 2));
}

#[test]
fn tuple_variant_reports_field_and_shape() {
    let di: DeriveInput = parse_quote! { enum E { V(#[darling(bogus)] u8, u8) } };
    assert_eq!(outcome(derive::from_meta(&di)), (0, 2));
}
