//! C18: shape words are additive, but a second `supports(...)` list silently replaces the
//! first one instead of adding to it (and is not diagnosed as a repetition either).
use darling::{FromDeriveInput, FromVariant};
use syn::parse_quote;

#[derive(FromDeriveInput)]
#[darling(supports(struct_named))]
#[darling(supports(enum_unit))]
struct TwoAttributes {}

#[derive(FromDeriveInput)]
#[darling(supports(struct_named), supports(enum_unit))]
struct TwoLists {}

/// Control: the same words in one list.
#[derive(FromDeriveInput)]
#[darling(supports(struct_named, enum_unit))]
struct OneList {}

#[derive(FromVariant)]
#[darling(supports(unit))]
#[darling(supports(named))]
struct VariantTwoAttributes {}

fn named_struct() -> syn::DeriveInput {
    parse_quote!(struct S { a: u8 })
}

fn unit_enum() -> syn::DeriveInput {
    parse_quote!(enum E { A, B })
}

#[test]
fn control_one_list() {
    assert!(OneList::from_derive_input(&named_struct()).is_ok());
    assert!(OneList::from_derive_input(&unit_enum()).is_ok());
}

#[test]
fn words_of_two_attributes_add_up() {
    assert!(TwoAttributes::from_derive_input(&unit_enum()).is_ok());
    assert!(
        TwoAttributes::from_derive_input(&named_struct()).is_ok(),
        "`struct_named` was declared but a struct with named fields is rejected"
    );
}

#[test]
fn words_of_two_lists_in_one_attribute_add_up() {
    assert!(TwoLists::from_derive_input(&unit_enum()).is_ok());
    assert!(TwoLists::from_derive_input(&named_struct()).is_ok());
}

#[test]
fn from_variant_words_of_two_attributes_add_up() {
    let e: syn::ItemEnum = parse_quote!(enum E { A, D { x: u8 } });
    let mut variants = e.variants.iter();
    assert!(
        VariantTwoAttributes::from_variant(variants.next().unwrap()).is_ok(),
        "`unit` was declared but a unit variant is rejected"
    );
    assert!(VariantTwoAttributes::from_variant(variants.next().unwrap()).is_ok());
}
