//! C10 (unknown shape word / all violated rules of one element): the `supports(...)` list of
//! `FromDeriveInput` looks only at the first segment of each path, so `struct_named::bogus` or
//! `any::thing` are taken for known shape words; and it stops at the first bad word, whereas
//! the `supports(...)` list of `FromVariant` reports every bad word.
use darling_core::derive;
use proc_macro2::TokenStream;
use syn::{parse_quote, DeriveInput};

/// (number of impl blocks, number of top-level compile_error! invocations) in a derive's output.
fn outcome(out: TokenStream) -> (usize, usize) {
    let file: syn::File = syn::parse2(out).expect("derive output is a sequence of items");
    let mut impls = 0;
    let mut errors = 0;
    for item in &file.items {
        match item {
            syn::Item::Impl(_) => impls += 1,
            syn::Item::Macro(m)
                if m.mac.path.segments.last().map(|s| s.ident == "compile_error").unwrap_or(false) =>
            {
                errors += 1
            }
            other => panic!("unexpected item in derive output: {:?}", other),
        }
    }
    (impls, errors)
}

#[test]
fn qualified_path_is_not_a_shape_word() {
    let di: DeriveInput = parse_quote! {
        #[darling(supports(struct_named::bogus))]
        struct R {}
    };
    assert_eq!(outcome(derive::from_derive_input(&di)), (0, 1));
}

#[test]
fn qualified_any_is_not_a_shape_word() {
    let di: DeriveInput = parse_quote! {
        #[darling(supports(any::thing, ::any))]
        struct R {}
    };
    let (impls, errors) = outcome(derive::from_derive_input(&di));
    assert_eq!(impls, 0);
    assert!(errors >= 1);
}

#[test]
fn qualified_path_is_not_a_variant_shape_word() {
    let di: DeriveInput = parse_quote! {
        #[darling(supports(named::bogus))]
        struct R {}
    };
    assert_eq!(outcome(derive::from_variant(&di)), (0, 1));
}

#[test]
fn control_from_variant_reports_every_unknown_word() {
    let di: DeriveInput = parse_quote! {
        #[darling(supports(bogus1, named, bogus2))]
        struct R {}
    };
    assert_eq!(outcome(derive::from_variant(&di)), (0, 2));
}

#[test]
fn from_derive_input_reports_every_unknown_word() {
    let di: DeriveInput = parse_quote! {
        #[darling(supports(struct_bogus, struct_named, enum_bogus))]
        struct R {}
    };
    assert_eq!(outcome(derive::from_derive_input(&di)), (0, 2));
}
