//! C01: an absent field holds its type's declared value-for-absent (`from_none`), whatever the
//! shape of the receiver that declares it.
use darling::FromMeta;

#[derive(Debug, FromMeta, PartialEq)]
#[darling(from_none = || Some(W(7)))]
struct W(u32);

#[derive(Debug, FromMeta, PartialEq)]
#[darling(from_none = || Some(U))]
struct U;

#[derive(Debug, FromMeta, PartialEq)]
#[darling(from_none = || Some(N { a: 3 }))]
struct N {
    a: u32,
}

#[derive(Debug, FromMeta)]
struct Holder {
    w: W,
    u: U,
    n: N,
}

#[test]
fn named_struct_honours_from_none() {
    assert_eq!(N::from_none(), Some(N { a: 3 }));
}

#[test]
fn newtype_struct_honours_from_none() {
    assert_eq!(W::from_none(), Some(W(7)));
}

#[test]
fn unit_struct_honours_from_none() {
    assert_eq!(U::from_none(), Some(U));
}

#[test]
fn absent_fields_hold_their_types_value_for_absent() {
    let h = Holder::from_list(&[]).unwrap();
    assert_eq!((h.w, h.u, h.n), (W(7), U, N { a: 3 }));
}
