//! C02 / C03: errors found in the body layer (variants, their fields, tuple fields) carry the
//! outer-to-inner location path; unspanned absences render it.
use darling::{ast, FromDeriveInput, FromField, FromVariant};
use syn::parse_quote;

#[derive(Debug, FromField)]
#[darling(attributes(h))]
struct FieldR {
    ident: Option<syn::Ident>,
    x: u32,
}

#[derive(Debug, FromVariant)]
#[darling(attributes(h))]
struct VarR {
    ident: syn::Ident,
    fields: ast::Fields<FieldR>,
    y: u32,
}

#[derive(Debug, FromDeriveInput)]
#[darling(attributes(h))]
struct DI {
    data: ast::Data<VarR, FieldR>,
}

#[derive(Debug, FromDeriveInput)]
#[darling(attributes(h), supports(enum_unit))]
struct UnitOnly {
    ident: syn::Ident,
}

fn rendered(e: darling::Error) -> Vec<String> {
    e.flatten().into_iter().map(|l| l.to_string()).collect()
}

#[test]
fn variant_absence_names_the_variant() {
    let di: syn::DeriveInput = parse_quote! {
        enum E { #[h(y = 1)] Alpha, Beta, Gamma }
    };
    let msgs = rendered(DI::from_derive_input(&di).unwrap_err());
    assert_eq!(msgs.len(), 2, "{:?}", msgs);
    assert!(msgs[0].contains("Beta"), "{:?}", msgs);
    assert!(msgs[1].contains("Gamma"), "{:?}", msgs);
}

#[test]
fn field_in_variant_has_full_path() {
    let di: syn::DeriveInput = parse_quote! {
        enum E {
            #[h(y = 1)] Alpha { b: u8 },
            #[h(y = 1)] Beta { b: u8 },
        }
    };
    let msgs = rendered(DI::from_derive_input(&di).unwrap_err());
    assert_eq!(msgs.len(), 2, "{:?}", msgs);
    assert_ne!(msgs[0], msgs[1], "two different mistakes are rendered identically");
    assert!(msgs[0].contains("Alpha"), "{:?}", msgs);
    assert!(msgs[1].contains("Beta"), "{:?}", msgs);
}

#[test]
fn tuple_fields_are_told_apart() {
    let di: syn::DeriveInput = parse_quote! {
        struct S(#[h(x = 1)] u8, u8, u8);
    };
    let msgs = rendered(DI::from_derive_input(&di).unwrap_err());
    assert_eq!(msgs.len(), 2, "{:?}", msgs);
    assert_ne!(msgs[0], msgs[1], "two different mistakes are rendered identically");
}

#[test]
fn variant_shape_verdict_names_the_variant() {
    let di: syn::DeriveInput = parse_quote! {
        enum E { Alpha, Beta(u8), Gamma { x: u8 } }
    };
    let err = UnitOnly::from_derive_input(&di).unwrap_err();
    let leaves: Vec<_> = err.flatten().into_iter().collect();
    assert_eq!(leaves.len(), 2);
    for (leaf, name) in leaves.iter().zip(["Beta", "Gamma"]) {
        assert!(
            leaf.has_span() || leaf.to_string().contains(name),
            "unspanned and without location: {}",
            leaf
        );
    }
}
