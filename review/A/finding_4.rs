//! C02: mistakes in the attributes of generic parameters are all reported, with a location, and do
//! not hide the mistakes in the body's fields.
use darling::{ast, FromDeriveInput, FromField, FromTypeParam};
use syn::parse_quote;

#[derive(Debug, FromTypeParam)]
#[darling(attributes(h))]
struct TP {
    ident: syn::Ident,
    req: u32,
}

#[derive(Debug, FromField)]
#[darling(attributes(h))]
struct FieldR {
    ident: Option<syn::Ident>,
    x: u32,
}

#[derive(Debug, FromDeriveInput)]
#[darling(attributes(h))]
struct DI {
    generics: ast::Generics<ast::GenericParam<TP>>,
    data: ast::Data<(), FieldR>,
}

#[derive(Debug, FromDeriveInput)]
#[darling(attributes(h))]
struct OnlyGenerics {
    generics: ast::Generics<ast::GenericParam<TP>>,
}

fn rendered(e: darling::Error) -> Vec<String> {
    e.flatten().into_iter().map(|l| l.to_string()).collect()
}

#[test]
fn every_bad_type_param_is_reported() {
    let di: syn::DeriveInput = parse_quote! {
        struct S<#[h(req = 1)] A, B, C, #[h(zzz)] D>;
    };
    let msgs = rendered(OnlyGenerics::from_derive_input(&di).unwrap_err());
    // B: missing req; C: missing req; D: unknown zzz + missing req
    assert_eq!(msgs.len(), 4, "{:?}", msgs);
}

#[test]
fn type_param_error_names_the_type_param() {
    let di: syn::DeriveInput = parse_quote! {
        struct S<#[h(req = 1)] A, Bee>;
    };
    let msgs = rendered(OnlyGenerics::from_derive_input(&di).unwrap_err());
    assert!(msgs[0].contains("Bee"), "{:?}", msgs);
}

#[test]
fn generics_errors_do_not_hide_field_errors() {
    let di: syn::DeriveInput = parse_quote! {
        struct S<A, #[h(req = 1)] B> { #[h(x = 1)] a: A, b: B }
    };
    let msgs = rendered(DI::from_derive_input(&di).unwrap_err());
    // A: missing req; b: missing x
    assert_eq!(msgs.len(), 2, "{:?}", msgs);
}
