//! C01: a FromAttributes receiver may have an ordinary field called `ident`.
//! On the unchanged tree this file FAILS TO COMPILE:
//!   error[E0063]: missing field `ident` in initializer of `A`
use darling::FromAttributes;
use syn::parse_quote;

#[derive(Debug, FromAttributes)]
#[darling(attributes(h))]
struct A {
    ident: Option<syn::Ident>,
    x: u32,
}

#[test]
fn ident_is_an_ordinary_field() {
    let di: syn::DeriveInput = parse_quote! { #[h(ident = "foo", x = 1)] struct S; };
    let a = A::from_attributes(&di.attrs).unwrap();
    assert_eq!(a.ident.unwrap().to_string(), "foo");
    assert_eq!(a.x, 1);
}
