//! C01 / C09: the effective name of a field or variant written as a raw identifier is derived from
//! its Rust name (`r#type` -> `type`), not from the token text `r#type`.
use darling::ast::NestedMeta;
use darling::FromMeta;
use quote::quote;

#[derive(Debug, FromMeta, PartialEq)]
enum Kind {
    r#Type,
    Other,
}

#[derive(Debug, FromMeta)]
#[darling(rename_all = "SCREAMING_SNAKE_CASE")]
struct Screaming {
    r#type: String,
    other_one: bool,
}

#[derive(Debug, FromMeta)]
#[darling(rename_all = "PascalCase")]
struct Pascal {
    r#type: String,
}

#[derive(Debug, FromMeta)]
struct Plain {
    r#name: String,
}

#[test]
fn raw_variant_is_selected_by_its_rust_name() {
    // snake_case("Type") == "type"
    assert_eq!(Kind::from_string("type").unwrap(), Kind::r#Type);
}

#[test]
fn raw_field_under_screaming_snake_case() {
    let items = NestedMeta::parse_meta_list(quote!(TYPE = "v", OTHER_ONE)).unwrap();
    let s = Screaming::from_list(&items).unwrap();
    assert_eq!(s.r#type, "v");
}

#[test]
fn raw_field_under_pascal_case() {
    let items = NestedMeta::parse_meta_list(quote!(Type = "v")).unwrap();
    let s = Pascal::from_list(&items).unwrap();
    assert_eq!(s.r#type, "v");
}

#[test]
fn raw_field_without_rule() {
    // `r#name` and `name` are the same Rust identifier.
    let items = NestedMeta::parse_meta_list(quote!(name = "v")).unwrap();
    let s = Plain::from_list(&items).unwrap();
    assert_eq!(s.r#name, "v");
}
