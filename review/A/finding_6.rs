//! C03: an error about items that are present in the input is spanned - also when the enum that
//! rejects the item count is reached through a flatten field of an element-level receiver.
use darling::{FromDeriveInput, FromMeta};
use syn::parse_quote;

#[derive(Debug, FromMeta, PartialEq)]
enum Mode {
    A,
    B(u32),
}

#[derive(Debug, FromDeriveInput)]
#[darling(attributes(h))]
struct R {
    a: Option<u32>,
    #[darling(flatten)]
    mode: Mode,
}

#[test]
fn one_item_is_fine() {
    let di: syn::DeriveInput = parse_quote! { #[h(a = 1, b = 3)] struct S; };
    let r = R::from_derive_input(&di).unwrap();
    assert_eq!(r.mode, Mode::B(3));
}

#[test]
fn too_many_items_through_flatten_is_spanned() {
    let di: syn::DeriveInput = parse_quote! { #[h(a = 1, b = 3, c)] struct S; };
    let err = R::from_derive_input(&di).unwrap_err();
    let leaves: Vec<_> = err.flatten().into_iter().collect();
    assert_eq!(leaves.len(), 1);
    assert!(leaves[0].to_string().starts_with("Too many items"), "{}", leaves[0]);
    assert!(
        leaves[0].has_span(),
        "error about items present in the input is unspanned: {}",
        leaves[0]
    );
}
