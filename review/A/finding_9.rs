//! C01 / C02: a derived newtype receiver proxies to its inner receiver - also when it is the
//! flatten target.
use darling::ast::NestedMeta;
use darling::FromMeta;
use quote::quote;

#[derive(Debug, FromMeta, PartialEq)]
struct Inner {
    q: Option<u32>,
}

#[derive(Debug, FromMeta, PartialEq)]
struct W(Inner);

#[derive(Debug, FromMeta)]
struct Outer {
    a: u32,
    #[darling(flatten)]
    w: W,
}

#[test]
fn newtype_is_transparent_as_ordinary_field() {
    #[derive(Debug, FromMeta)]
    struct O2 {
        w: W,
    }
    let items = NestedMeta::parse_meta_list(quote!(w(q = 2))).unwrap();
    assert_eq!(O2::from_list(&items).unwrap().w, W(Inner { q: Some(2) }));
}

#[test]
fn newtype_receives_flattened_items() {
    let items = NestedMeta::parse_meta_list(quote!(a = 1, q = 2)).unwrap();
    let o = Outer::from_list(&items).unwrap();
    assert_eq!(o.w, W(Inner { q: Some(2) }));
}

#[test]
fn newtype_flatten_target_with_no_unknown_items() {
    let items = NestedMeta::parse_meta_list(quote!(a = 1)).unwrap();
    let o = Outer::from_list(&items).unwrap();
    assert_eq!(o.w, W(Inner { q: None }));
}
