//! C01: newtype structs are a supported receiver shape; the element-level derives must either
//! delegate (like FromDeriveInput / FromAttributes / FromMeta do) or reject the shape.
//! On the unchanged tree this file FAILS TO COMPILE:
//!   error[E0560]: struct `F1` has no field named `__unnamed`   (likewise V1, T1)
#![allow(dead_code)]
use darling::{FromField, FromTypeParam, FromVariant};

#[derive(Debug, FromField)]
#[darling(attributes(h))]
struct F1(u32);

#[derive(Debug, FromVariant)]
#[darling(attributes(h))]
struct V1(u32);

#[derive(Debug, FromTypeParam)]
#[darling(attributes(h))]
struct T1(u32);

#[test]
fn compiles() {}
