//! C09: a skipped variant can never be produced - not even through `#[darling(word)]`.
use darling::ast::NestedMeta;
use darling::FromMeta;
use quote::quote;

#[derive(Debug, FromMeta, PartialEq)]
enum Mode {
    A,
    #[darling(skip, word)]
    B,
}

#[derive(Debug, FromMeta)]
struct Holder {
    mode: Mode,
}

#[test]
fn skipped_variant_is_not_reachable_by_string_or_list() {
    // sanity: these forms already refuse the skipped variant
    assert!(Mode::from_string("b").is_err());
    let items = NestedMeta::parse_meta_list(quote!(mode(b))).unwrap();
    assert!(Holder::from_list(&items).is_err());
}

#[test]
fn skipped_variant_is_not_produced_by_from_word() {
    let r = Mode::from_word();
    assert!(r.is_err(), "skipped variant was produced: {:?}", r);
}

#[test]
fn skipped_variant_is_not_produced_by_bare_word_item() {
    let items = NestedMeta::parse_meta_list(quote!(mode)).unwrap();
    let r = Holder::from_list(&items);
    assert!(r.is_err(), "skipped variant was produced: {:?}", r);
}
