//! C03: the span of "bare literal where a named item is required" lies inside the literal, for a
//! derived enum just as for a derived struct.
//! Run with: cargo test --offline --features proc-macro2/span-locations --test finding_11
use darling::FromMeta;

#[derive(Debug, FromMeta)]
enum E {
    A,
    N(u32),
}

#[derive(Debug, FromMeta)]
struct Inner {
    q: Option<u32>,
}

#[derive(Debug, FromMeta)]
struct S {
    e: Option<E>,
    s: Option<Inner>,
}

fn single_leaf_span_text(src: &str) -> String {
    let meta: syn::Meta = syn::parse_str(src).unwrap();
    let err = S::from_meta(&meta).unwrap_err();
    let leaves: Vec<_> = err.flatten().into_iter().collect();
    assert_eq!(leaves.len(), 1);
    assert!(leaves[0].to_string().contains("literal"), "{}", leaves[0]);
    leaves[0]
        .explicit_span()
        .expect("leaf is spanned")
        .source_text()
        .expect("build with --features proc-macro2/span-locations")
}

#[test]
fn struct_receiver_points_at_the_literal() {
    assert_eq!(single_leaf_span_text(r#"x(s("lit"))"#), r#""lit""#);
}

#[test]
fn enum_receiver_points_at_the_literal() {
    assert_eq!(single_leaf_span_text(r#"x(e("lit"))"#), r#""lit""#);
}
