//! C02: the location of an error inside a `multiple` field names the occurrence that is at fault.
use darling::ast::NestedMeta;
use darling::FromMeta;
use quote::quote;

#[derive(Debug, FromMeta)]
struct Inner {
    req: u32,
}

#[derive(Debug, FromMeta)]
struct S {
    #[darling(multiple)]
    v: Vec<u32>,
    #[darling(multiple)]
    n: Vec<Inner>,
}

fn rendered(e: darling::Error) -> Vec<String> {
    e.flatten().into_iter().map(|l| l.to_string()).collect()
}

#[test]
fn scalar_occurrences_are_numbered_by_position() {
    let items = NestedMeta::parse_meta_list(quote!(v = "a", v = "b", v = 3, v = "c")).unwrap();
    let msgs = rendered(S::from_list(&items).unwrap_err());
    assert_eq!(msgs.len(), 3, "{:?}", msgs);
    assert!(msgs[0].ends_with("at v[0]"), "{:?}", msgs);
    assert!(msgs[1].ends_with("at v[1]"), "{:?}", msgs);
    assert!(msgs[2].ends_with("at v[3]"), "{:?}", msgs);
}

#[test]
fn two_mistakes_are_not_rendered_identically() {
    let items = NestedMeta::parse_meta_list(quote!(n(), n())).unwrap();
    let msgs = rendered(S::from_list(&items).unwrap_err());
    assert_eq!(msgs.len(), 2, "{:?}", msgs);
    assert_ne!(msgs[0], msgs[1], "both occurrences are reported at the same location");
}

#[test]
fn nested_occurrences_are_numbered_by_position() {
    let items = NestedMeta::parse_meta_list(quote!(n(zz), n(req = 1), n(req = "x"))).unwrap();
    let msgs = rendered(S::from_list(&items).unwrap_err());
    assert!(msgs.iter().any(|m| m.contains("at n[2]/req")), "{:?}", msgs);
}
