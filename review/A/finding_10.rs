//! C01 / C02 / C09: `::name` is not the declared name `name`.
use darling::ast::NestedMeta;
use darling::FromMeta;
use quote::quote;
use std::collections::HashMap;

#[derive(Debug, FromMeta)]
struct S {
    a: Option<u32>,
}

#[derive(Debug, FromMeta)]
struct WithRest {
    a: Option<u32>,
    #[darling(flatten)]
    rest: HashMap<syn::Path, u32>,
}

#[derive(Debug, FromMeta, PartialEq)]
enum E {
    A,
    B,
}

#[derive(Debug, FromMeta)]
struct HoldE {
    e: E,
}

#[test]
fn global_path_is_an_unknown_field() {
    let items = NestedMeta::parse_meta_list(quote!(::a = 1)).unwrap();
    let r = S::from_list(&items);
    assert!(r.is_err(), "`::a` was taken for field `a`: {:?}", r);
}

#[test]
fn global_path_is_not_a_duplicate_of_the_plain_name() {
    let items = NestedMeta::parse_meta_list(quote!(::a = 1, a = 2)).unwrap();
    let err = S::from_list(&items).unwrap_err();
    assert!(
        !err.to_string().contains("Duplicate"),
        "`::a` and `a` reported as the same name: {}",
        err
    );
}

#[test]
fn global_path_is_handed_to_flatten() {
    let items = NestedMeta::parse_meta_list(quote!(::a = 1)).unwrap();
    let r = WithRest::from_list(&items).unwrap();
    assert_eq!(r.a, None);
    assert_eq!(r.rest.len(), 1);
}

#[test]
fn global_path_does_not_select_a_variant() {
    let items = NestedMeta::parse_meta_list(quote!(e(::a))).unwrap();
    let r = HoldE::from_list(&items);
    assert!(r.is_err(), "`::a` selected a variant: {:?}", r);
}
