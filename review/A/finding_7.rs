//! C09 / C01: a container-level `default` on a derived enum must not break its struct variants.
//! On the unchanged tree this file FAILS TO COMPILE:
//!   error[E0425]: cannot find value `__default` in this scope
use darling::ast::NestedMeta;
use darling::FromMeta;
use quote::quote;

#[derive(Debug, FromMeta, PartialEq)]
#[darling(default)]
enum E {
    A,
    B { x: u32, y: Option<String> },
}

impl Default for E {
    fn default() -> Self {
        E::A
    }
}

#[derive(Debug, FromMeta)]
struct Holder {
    e: E,
}

#[test]
fn struct_variant_still_parses() {
    let items = NestedMeta::parse_meta_list(quote!(e(b(x = 1, y = "s")))).unwrap();
    let h = Holder::from_list(&items).unwrap();
    assert_eq!(
        h.e,
        E::B {
            x: 1,
            y: Some("s".into())
        }
    );
}
